#!/bin/bash
# usage: confirm_seeded.sh <wt> <seedname> <propid> "<needs>"  -- confirms a seeded change in a scratch worktree and stores it under /verif/seeded/<seedname>
export GOFLAGS=-mod=mod GOPROXY=off GOSUMDB=off GOTOOLCHAIN=local
WT="$1"; NAME="$2"; PROP="$3"; NEEDS="$4"
cd "$WT" || exit 2
DEMO=$(git status --porcelain | grep '^??' | awk '{print $2}' | grep -v patch.diff | head -5)
DEMOFILE=$(echo "$DEMO" | grep '_test.go' | head -1)
[ -z "$DEMOFILE" ] && { echo "no demo test file found: $DEMO"; exit 2; }
PKG=./$(dirname "$DEMOFILE")
RUNRE=$(grep -ohE '^func (Test[A-Za-z0-9_]+)' "$DEMOFILE" | awk '{print $2}' | paste -sd'|')
CHANGED=$(git diff --name-only)
echo "demo=$DEMOFILE pkg=$PKG tests=$RUNRE changed=$CHANGED"
go build ./... || { echo "BUILD FAILS"; exit 1; }
go test -vet=off -count=1 -run "^($RUNRE)\$" "$PKG" > /tmp/confirm.$$.with 2>&1; RC_WITH=$?
mv "$DEMOFILE" /tmp/confirm.$$.demo
go test -vet=off -count=1 ./... > /tmp/confirm.$$.suite 2>&1
SUITE_FAILS=$(grep -E '^(FAIL|---)' /tmp/confirm.$$.suite | grep -v 'pkg/docutil' | grep -v '^FAIL$' | head -5)
mv /tmp/confirm.$$.demo "$DEMOFILE"
git diff -- $CHANGED > /tmp/confirm.$$.patch; git apply -R /tmp/confirm.$$.patch   # (no git stash: the stash is shared between worktrees)
go test -vet=off -count=1 -run "^($RUNRE)\$" "$PKG" > /tmp/confirm.$$.without 2>&1; RC_WITHOUT=$?
git apply /tmp/confirm.$$.patch
echo "demo with change rc=$RC_WITH (want !=0); demo without change rc=$RC_WITHOUT (want 0); suite failures with change: [${SUITE_FAILS}]"
if [ $RC_WITH -ne 0 ] && [ $RC_WITHOUT -eq 0 ] && [ -z "$SUITE_FAILS" ]; then
  D=/verif/seeded/$NAME; mkdir -p $D
  git diff -- $CHANGED > $D/patch.diff
  cp "$DEMOFILE" $D/$(basename "$DEMOFILE").txt
  python3 - "$D" "$PROP" "$NEEDS" "$DEMOFILE" "$CHANGED" <<'PY'
import json,sys
d,prop,needs,demo,changed=sys.argv[1:6]
json.dump({"property":prop,"breaks":prop,"needs_to_manifest":needs,"changed_files":changed.split(),"demonstration":demo,
 "confirmed":{"suite_with_change":"pass (pkg/docutil test build failure is pre-existing)","demo_with_change":"fail","demo_without_change":"pass",
 "commands":["go build ./...","go test -vet=off -count=1 ./... (demo moved aside)","go test -run <demo> <pkg> with and without the change (git stash)"]}},open(d+"/meta.json","w"),indent=1)
PY
  echo "CONFIRMED -> $D"
else echo "NOT CONFIRMED"; fi
rm -f /tmp/confirm.$$.*
