#!/bin/bash
# usage: runall.sh [quick|thorough] [IDs...] -- runs the checks sequentially and prints one verdict line each
TIER="${1:-quick}"; shift
IDS="$@"; [ -z "$IDS" ] && IDS=$(seq -f "C%02g" 1 20)
for id in $IDS; do
  s=$(date +%s); out=$(/verif/run.sh $id $TIER 2>&1); rc=$?; e=$(date +%s)
  echo "$id rc=$rc $((e-s))s $(echo "$out" | grep -E '^(OK|VIOLATION|KNOWN-FINDING|HARNESS)' | head -3 | cut -c1-160 | tr '\n' ' ')"
done
