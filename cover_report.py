#!/usr/bin/env python3
# usage: cover_report.py <coverage textfmt> <properties.jsonl>: per anchor file, the blocks no check executed
import sys, json, collections, os
cov = collections.defaultdict(dict)
for l in open(sys.argv[1]):
    if l.startswith('mode:'): continue
    loc, n, c = l.rsplit(' ', 2)
    f, r = loc.split(':')
    f = f.replace('github.com/trustbloc/sidetree-core-go/', '')
    cov[f][r] = max(cov[f].get(r, 0), int(c))
anchors = collections.defaultdict(list)
for l in open(sys.argv[2]):
    p = json.loads(l)
    for f in p['anchors']['files']:
        anchors[f].append(p['id'])
tot = 0
for f in sorted(anchors):
    if f not in cov:
        print(f"## {f} ({','.join(anchors[f])}): NOT IN BINARY"); continue
    un = sorted((tuple(map(int, r.split(',')[0].split('.'))), r) for r, c in cov[f].items() if c == 0)
    print(f"## {f} ({','.join(anchors[f])}): {len(un)} of {len(cov[f])} blocks never executed")
    src = open('/repo/' + f).read().split('\n')
    for (ln, col), r in un:
        tot += 1
        end = int(r.split(',')[1].split('.')[0])
        print(f"   {f}:{ln}-{end}: {src[ln-1].strip()[:110]}")
print("total uncovered blocks in anchor files:", tot)
