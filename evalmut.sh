#!/bin/bash
# usage: evalmut.sh <patch.diff> <tier> <ID>...   -- applies a seeded change to /repo, runs the named checks, reverts.
# prints one line per check: <ID> DETECTED|MISSED|ERROR(<rc>) and the first VIOLATION class
P="$1"; TIER="$2"; shift; shift
cd /repo || exit 2
if ! git diff --quiet; then echo "/repo has uncommitted changes"; exit 2; fi
git apply "$P" || { echo "patch does not apply"; exit 2; }
trap 'git -C /repo apply -R "$P" 2>/dev/null; git -C /repo checkout -- . ; git -C /repo status --short | grep "^??" && echo "WARNING: untracked files left in /repo"' EXIT
for id in "$@"; do
  out=$(/verif/run.sh "$id" "$TIER" 2>&1); rc=$?
  cls=$(echo "$out" | grep -m1 "class=" | sed 's/^ *//' | cut -c1-200)
  if [ $rc -eq 1 ] && echo "$out" | grep -q "^VIOLATION property=$id"; then echo "$id DETECTED $cls";
  elif [ $rc -eq 0 ]; then echo "$id MISSED";
  else echo "$id ERROR($rc) $(echo "$out" | tail -3 | tr '\n' ' ' | cut -c1-300)"; fi
done
