#!/usr/bin/env python3
"""Generates /verif/MANIFEST.json from the table below (kept in one place so it is always valid)."""
import json, subprocess

ALL = ["C%02d" % i for i in range(1, 21)]

# id -> (technique, level text, level note, design ref)
CLAIMED = {
 "C03": ("explicit-state search over anchored-operation sets on the real processor, lock-step with a reference state machine",
         "Every set of <=3 (thorough: <=4) anchored pool operations (valid, forked, failing-delta, out-of-window, replayed, cyclic, forged; all key types, both hash algorithms, published/unpublished) is resolved by the real processor/applier/parser/composer and compared field by field with the ref/sidetree reference; plus 40-long chains with cycle-closing competitors. Exhaustive within the stated alphabet and depth.",
         "Trusted: ref/sidetree, ref/doc, ref/jcs (independent of the code under test); harness-built requests; bounds as stated in evidence.",
         "DESIGN.md §3 C03"),
}

NOT_YET = "check not built yet in this round (work in progress; see DESIGN.md §3 for the planned decision procedure)"

def main():
    commits = subprocess.run(["git", "-C", "/repo", "log", "--format=%H %s"], capture_output=True, text=True).stdout.splitlines()
    hooks = [c.split()[0] for c in commits if "verif hook" in c]
    checks = []
    for pid in ALL:
        if pid not in CLAIMED:
            continue
        tech, text, note, ref = CLAIMED[pid]
        checks.append({
            "property_id": pid,
            "quick_cmd": "./run.sh %s quick" % pid,
            "thorough_cmd": "./run.sh %s thorough" % pid,
            "evidence_file": "/verif/evidence/%s.json" % pid,
            "replay_cmd_template": "./run.sh %s quick --replay {path}" % pid,
            "engine": "mc",
            "level_claimed": {"category": "model_checking", "text": text, "design_ref": ref},
            "level_note": note,
            "technique": tech,
        })
    m = {
        "version": 1,
        "setup_cmd": "./setup.sh",
        "hooks": {
            "guard": "verif (Go build tag)",
            "enable": "go build -tags verif (module /verif/mc with replace github.com/trustbloc/sidetree-core-go => /repo)",
            "baseline_off_cmd": "cd /repo && go test -mod=mod -vet=off -count=1 ./...",
            "source_commits": hooks,
            "add_only": True,
        },
        "engines": [{"name": "mc", "path": "/verif/mc", "serves_properties": sorted(CLAIMED.keys()),
                     "kind_free_text": "hand-written bounded-exhaustive explorer in Go: explicit-state search over the real transition functions with reference models in lock-step (hx, fx, ref/*, props/*)"}],
        "checks": checks,
        "not_applicable": [{"property_id": p, "reason": NOT_YET} for p in ALL if p not in CLAIMED],
        "notes": "All checks rebuild the checker from /repo's working tree on every invocation (run.sh). Known findings: /verif/known_findings.txt.",
    }
    json.dump(m, open("/verif/MANIFEST.json", "w"), indent=1)
    print("claimed:", len(checks), "not_applicable:", len(m["not_applicable"]))

main()
