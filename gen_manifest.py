#!/usr/bin/env python3
"""Generates /verif/MANIFEST.json from the table below (kept in one place so it is always valid)."""
import json, subprocess

ALL = ["C%02d" % i for i in range(1, 21)]

# id -> (technique, level text, level note, design ref)
TB = "Trusted: the reference models under /verif/mc/ref (independent of the code under test), the harness request builder (fx), Go's crypto; bounds as stated in the evidence file."
CLAIMED = {
 "C01": ("explicit-state search over (legitimate chain, unauthorised multiset, anchoring slots, store order) on the real processor; metamorphic oracle result(L+X)=result(L)",
         "All 22 legitimate chains x every single unauthorised operation / duplicate create (65 per key type: forged signature, tampered payload, wrong signer, wrong key revealed, alg swap, zero/short/long signature, suffix swap, failing signed window) at every anchoring slot x 2 store orders (1 for the 4 non-Ed25519 key types), with properly signed positive controls, plus all pairs (thorough: triples) on 4 representative slots for Ed25519; resolution must be unchanged. Exhaustive within that space.",
         TB, "DESIGN.md §3 C01"),
 "C02": ("explicit enumeration of all store-order permutations x all injective (time,number) assignments for every competition shape, on the real processor, vs reference ordering",
         "19 (thorough 25) competition shapes (forks, several creates, deactivate vs recover, replays, published/unpublished twins) x every injective coordinate assignment from a 3x3 / 2x3 grid incl. non-monotone numbers x every permutation of the store's return order x both arrival paths of unpublished operations; every permutation must equal ref/sidetree ordered by (time, number), published first; metadata operation lists must be in that order.",
         TB, "DESIGN.md §3 C02"),
 "C04": ("explicit-state search: every reachable deactivated / recovered state of the real processor extended by every later operation (pairs), differential between states; real DocumentHandler driven per state",
         "All histories of <=3 operations after the create over a 14-operation chain alphabet; the ~1.2k that resolve as deactivated are extended by every single pool operation (97, published and unpublished) and pairs; a real DocumentHandler with its default decorator must refuse all non-create requests; for ~1.4k recover states every subset of updates anchored at/before the recover is removed and must not matter.",
         TB, "DESIGN.md §3 C04"),
 "C05": ("bounded-exhaustive boundary enumeration x independent configuration variation on the real applier/parser vs an independent window predicate",
         "Every (anchorFrom, anchorUntil) in {0,T-1,T,T+1,T+5}^2 plus the T-delta-1..T-delta+1 defaults x {update, recover, deactivate} x 38 protocol configurations in which the time delta (7, 300) varies independently of 9 other parameters; effect through the real processor and intake through the real parser with a spy time validator; outcome must depend on the delta only.",
         TB, "DESIGN.md §3 C05"),
 "C06": ("explicit-state search over histories x all cut points (times, version ids) x later extensions; metamorphic oracle against the truncated history on the real processor plus the reference model",
         "All histories of <=3 (thorough 4) operations over a 14-operation alphabet on 5 non-monotone coordinates, published and unpublished, x every cut time from pre-epoch to maxTime+1 x every version id (and an unknown one) x 5 later-anchored extensions x 2 store orders, plus the cuts through the REST resolve handler.",
         TB, "DESIGN.md §3 C06"),
 "C07": ("bounded-exhaustive input enumeration (complete families over an alphabet of tricky strings/numbers, all re-serializations, doubles by bit pattern) differential against an independent RFC 8785 reference",
         "~38k JSON texts in complete families (every <=3-subset of 25 tricky keys in every order; every escape spelling of every atom and ordered pair; number spellings; all trees depth<=2 (thorough 3); whitespace at every position; every proper prefix, duplicate names, all two-character escapes, malformed \\u, all lone-surrogate shapes, raw control bytes, trailing bytes) plus ~180k (thorough ~11M) doubles by bit pattern and decimal literals; byte equality with ref/jcs, fixed point, value preservation, and rejection agreement.",
         TB, "DESIGN.md §3 C07"),
 "C08": ("bounded-exhaustive re-serialization and single-character/single-member alteration enumeration on the real parser, hashing and DocumentHandler",
         "120 create requests x 36 re-serializations through the real parser (same suffix, accepted); commitments of 15 keys x nonce x algorithm against the independent double hash; IsValidModelMultihash against ~17k candidate strings per model (every single-character substitution, truncation, CR/LF, wrong code) accepted exactly when correct; long-form DIDs through a real DocumentHandler: every position of the initial-state segment substituted (quick: 16 of 63 alternatives per position, thorough all), every suffix character, 16 member alterations, 35 non-canonical encodings, swapped states.",
         TB, "DESIGN.md §3 C08"),
 "C09": ("bounded-exhaustive alteration enumeration (every bit of payload/signature, every header byte, every foreign key, signature classes, malformed grammar) on the real JWS verifier",
         "45 genuine JWS (5 key types x 3 header sets x 3 payloads) built independently and by the library's signers verify; every single-bit flip of payload and signature, every value-changing header byte substitution (quick 7 substitutes, thorough 255), 9 foreign keys, 14 signature classes are rejected, (r,n-s) verifies; 230 malformed compact strings, 18 header objects and ~30 malformed JWKs per key type give an error, never a panic.",
         TB, "DESIGN.md §3 C09"),
 "C10": ("bounded-exhaustive boundary / enabled-list / field-mutation enumeration on the real parser under independently varied configurations, against an independent rule predicate",
         "26 valid seeds (4 types x 5 key types, nonce variants); each limit at measured-1/0/+1 with all other parameters generous and distinct; every hash field individually under SHA2-512; every enabled-list entry removed in turn; 10 unrelated parameters toggled; every JSON path of request, signed data and header removed / replaced by 11 values (re-signed) with accepted => rule predicate; all prefixes and mutations through Parse, ParseOperation (both modes), GetRevealValue, GetCommitment, and a DID grammar through ParseDID for panic freedom.",
         TB, "DESIGN.md §3 C10"),
 "C11": ("bounded-exhaustive product of client-builder inputs executed through builder -> real parser -> real processor, compared with the reference document model",
         "720 configurations (5 key types x 2 hash algorithms x opaque/patches x 3 origins x 3 windows x nonce x kid) x 4 builders x 5 anchored scenarios.",
         TB, "DESIGN.md §3 C11"),
 "C13": ("bounded-exhaustive enumeration of batch compositions round-tripped through the real OperationHandler and OperationProvider over an in-memory CAS",
         "Every sequence of length 1..4 (thorough 5) over {create, update, recover, deactivate} x 3 DIDs (22,620 / 271,452 batches), every sequence <=3 over an alphabet with expired-marked operations and second updates, maximum-size batches for MaxOperationCount in {1,2,5,50}, and a SHA2-512 / secp256k1 variant; the read-back must be the first queued non-expired operation per suffix, JSON-equal, with embedded anchor origin, ordered create/recover/update/deactivate, with the anchor count and a complete included/deferred/expired accounting.",
         TB, "DESIGN.md §3 C13"),
 "C14": ("bounded-exhaustive structural / byte-level mutation and CAS-fault enumeration served to the real OperationProvider, with a success invariant and must-reject classes",
         "Six valid file sets decoded to JSON trees; every structural mutation at every JSON path of every file (~3.4k singles, 4.6k pairs in quick, all pairs in thorough), moved entries, count skews, every truncation of every compressed file, gzip header/trailer substitutions, exact compressed/decompressed size boundaries per size parameter and factor, URI length boundary, reference presence rules, anchor string grammar, and every subset of failing CAS reads x 4 alternate-source configurations; outcome must be an error or operations satisfying the success invariant, never a panic.",
         TB + " Coverage-guided fuzzing named in the quantifier is not used (different technique).", "DESIGN.md §3 C14"),
 "C15": ("explicit-state enumeration of transaction / fault sequences through the real Observer, TxnProcessor and OperationProvider against a store-state model; fault-position enumeration at DocumentHandler intake",
         "All sequences of <=4 (thorough 5) transactions over 8 kinds (2 valid batches, bad anchor, missing CAS content, count mismatch, duplicate suffix across index files, unknown namespace, unknown protocol version) x store failure position x unpublished-store failure x 2 delivery modes; plus all sequences of <=2 requests over 11 request kinds x queue / unpublished-store failure positions through a real DocumentHandler.",
         TB, "DESIGN.md §3 C15"),
 "C16": ("explicit-state BFS over Add/tick/fault event sequences on the real Writer+cutter+MemQueue+OperationHandler in lock-step with a list reference model; stateless deviation-bounded schedule exploration of real goroutines under a cooperative scheduler (sync/atomic import-rewritten overlay) with linearization replay",
         "(a) BFS to depth 5 (thorough 6) over 16 (26) events incl. CAS-write / anchor-write failure positions: ~5k (~140k) reference states, every transition replayed on a fresh real node and compared on queue content, handler invocations and anchored batches; (b) 4 concurrent scenarios (2-3 submitters + writer thread with explorer-chosen ticks and faults), every execution with <=2 (thorough 3) deviations (~30k executions, ~1M choice points): queue calls linearized at lock grants and replayed on a FIFO list, batch size/version invariants, no deadlock, fault-free drain, exactly-once. Thorough additionally runs the same thread bodies free-running 600x from a -race build as a supporting (non-deciding) pass.",
         TB + " Unsynchronised accesses / weak memory are not modelled; the randomized -race runs named in the quantifier are a different technique (supporting only). MemQueue is volatile, so crash points are explored as failing steps.", "DESIGN.md §3 C16"),
 "C17": ("breadth-first explicit-state search over documents reachable through the real DocumentComposer, every patch list applied in every state, compared with an ordered-map reference",
         "BFS from {} over a 29-patch alphabet to depth 3 (thorough 4): 648 (1,526) distinct documents; in every state all 870 (thorough 25,259) patch lists of length <=2 (3) are applied and checked for purity, aliasing, determinism, atomicity, fold equivalence and equality with ref/doc; round trip through PatchesFromDocument for every qualifying reachable document.",
         TB, "DESIGN.md §3 C17"),
 "C18": ("bounded-exhaustive rule-product enumeration through the real validator with an independent predicate; every accepted delta applied by the real composer inside crash-isolated worker subprocesses",
         "Full product of key-entry variants (15,120), service variants (918), list-level and replace variants, every action disabled in turn, and JSON-patch operation lists over six RFC 6902 operations x 22 paths x 12 from values x 6 values (1,040 single operations; 1,156 pairs in quick, all ordered pairs in thorough); accepted => structural predicate; accepted deltas applied to 12 documents in worker subprocesses that attribute panics, fatal exits and hangs to the request in flight.",
         TB + " One known finding (stack overflow in the third-party JSON patch engine on 'copy') is listed in known_findings.txt.", "DESIGN.md §3 C18"),
 "C19": ("bounded-exhaustive enumeration of internal documents x resolution models x transformer options through the real transformer and DocumentHandler against an independent projection",
         "~820 internal documents (every validator-accepted key variant, all ordered pairs of 24 variants, service variants and pairs, aliases, foreign members) x 16 option sets x published/unpublished info, and 108 (thorough 216) resolution models x 16 option sets x 5 documents; document and metadata compared with an independent projection (own base58/multibase); 7 histories through ResolveDocument.",
         TB, "DESIGN.md §3 C19"),
 "C12": ("bounded-exhaustive pairing enumeration at intake; explicit-state search over commitment-cycle histories on the real processor vs reference",
         "Every (revealed key, next commitment) pairing x both hash algorithms (also mixed) x 5 key types for update/recover and every (update, recovery) commitment pairing for create/recover through the real parser; every forward chain of length <=4 (update and recovery chains) plus 1-2 cycle-closing operations (self loops, cycles of length 2..4) at every anchoring position, with and without the legitimate continuation.",
         TB, "DESIGN.md §3 C12"),
 "C03": ("explicit-state search over anchored-operation sets on the real processor, lock-step with a reference state machine",
         "Every set of <=3 (thorough: <=4) anchored pool operations (valid, forked, failing-delta, out-of-window, replayed, cyclic, forged; all key types, both hash algorithms, published/unpublished) is resolved by the real processor/applier/parser/composer and compared field by field with the ref/sidetree reference; plus 40-long chains with cycle-closing competitors. Exhaustive within the stated alphabet and depth.",
         "Trusted: ref/sidetree, ref/doc, ref/jcs (independent of the code under test); harness-built requests; bounds as stated in evidence.",
         "DESIGN.md §3 C03"),
 "C20": ("explicit-state BFS over submit / tick / observe / advance event sequences on a node assembled from the library's real parts, in lock-step with an end-to-end reference (acceptance rule + queue/batch model + ledger + ref/sidetree + independent projection)",
         "4 (thorough 10) configurations (script pairs over create/update/recover/deactivate/alias-update/json-patch-update, unpublished store on/off, one or two protocol versions that each enable a patch action the other lacks, MaxOperationCount 1-3), submissions and resolutions through the REST update/resolve handlers, BFS to depth 8 (thorough 11), ~8k reference states / ~24k replayed traces in quick; after every trace every DID is resolved through DocumentHandler.ResolveDocument and compared (document, commitments, deactivated, published flag, canonical id), acceptance and ledger transactions are compared at every step, and create response / long-form / short-form documents are compared.",
         TB + " Faults and concurrent submissions are C16's subject.", "DESIGN.md §3 C20"),
}

# dimensions added in later rounds (the counts in the texts above are those of the first complete version)
LATER = {
 "C01": "Later additions: forged kinds r / s / t0 / t1 / x / v (signed extra members, tampered copies, cross-type replay, a legitimate update's signed data verbatim next to another delta), chains through recovers that re-commit to used commitments, every single protocol-version lookup of a resolution failing in turn (short chains on valid / invalid creates x every forged operation).",
 "C02": "Later additions: three- and four-way competitions, refused competitors carrying the genuine next commitment, version-id agreement across store orders, operations delivered by the caller instead of the store, a stored create the applier refuses, histories of 13 / 16 operations, a hostile second protocol version.",
 "C03": "Later additions: phases under a hostile second protocol version (V), with signed windows longer than the delta (W), with an operation of unknown protocol version (X), with every single version lookup failing in turn (K), on full-width uint64 coordinates (Z); one processor instance resolving twice; updates with two defects at once.",
 "C04": "Later additions: unpublished extensions stamped earlier than the anchored operations, recover states compared with the reference, recovers re-committing to used update commitments (published / unpublished, also on full-width coordinates), operations of the deactivated history supplied by the caller, a created document that also carries an alias and a foreign member (recover leaves nothing of them), two protocol versions.",
 "C05": "Later additions: 42 configurations incl. the genesis time of the version, negative bounds, a later version with another delta in force at the anchoring time, every single version lookup failing in turn under such a version.",
 "C06": "Later additions: caller-supplied operations in both option orders, nil options, UTC-offset / fractional spellings of every cut time, long-form DIDs through REST, a store outage after a cut resolution, a store handing out its own slice with a second resolution, version-id cuts on full-width coordinates.",
 "C07": "Later additions: every token of the number grammar over small parts, numbers at formatting boundaries, an interleaved canonicalization.",
 "C08": "Later additions: numbers and strings inside the create delta, long-form resolution repeated with resolution options, repeated resolution by one handler, multihashes carrying every prefix length of the right digest.",
 "C09": "Later additions: NewJWS header splits (the caller's map modified before serialization, a signer without own headers), one byte inserted at / removed from every signature position.",
 "C10": "Later additions: two-version DocumentHandler intake, padded requests and escaped-character deltas at the limits, wire-smaller-than-canonical deltas, respelled base64 hash fields and signed-data members, extra signed members, a failing version lookup after an accepted submission.",
 "C11": "Later additions: last-second windows, one signer object across requests, requests on a DID with an empty document, exact-fit limits, patch lists with verbatim repeats.",
 "C12": "Later additions: builder-level pairings, nonce dimension, delta-less and unpublished cycle closers, every cycle history next to an operation of unknown protocol version.",
 "C13": "Later additions: rich documents, refused batch before each round trip, another batch in between, alternate-source read-back, creates built with the second of two allowed algorithms.",
 "C14": "Later additions: 6 alternate-source modes, ordered pairs of transactions on one provider, corrupt local copy with an oversize alternate copy, anchor-string grammar product, consistent duplication, two-member gzip, well-formed proofs of an operation type the index has none of.",
 "C15": "Later additions: real-writer intake family, create whose delta does not apply, equivalent references that contain the canonical one.",
 "C16": "Later additions: protocol-version lookup faults, a not-yet-valid operation (batch refused, stays queued), the writer's own goroutine (Start) with real timers (safety only).",
 "C17": "Later additions: 36-patch alphabet incl. JSON remove / move / copy, constructor and byte routes, sized sections 1..9 with removal lists longer than the section, content classes.",
 "C18": "Later additions: every length 1..600 of ids / types, all subsets of key-material members, duplicate ids across accepted shapes, alsoKnownAs states left by JSON patches.",
 "C19": "Later additions: generic transformer, handler configurations, custom key contexts, method-context lists, purpose multiplicity, keys without material, documents of 3..33 entries, second transformation by one instance.",
 "C20": "Later additions: out-of-window scripts, invalid submissions, update committing to the consumed recovery commitment, a timeout tick with the writer's version lookup failing, an operation-size limit equal to the largest scripted request.",
}

NOT_YET = "check not built yet in this round (work in progress; see DESIGN.md §3 for the planned decision procedure)"

def main():
    commits = subprocess.run(["git", "-C", "/repo", "log", "--format=%H %s"], capture_output=True, text=True).stdout.splitlines()
    hooks = [c.split()[0] for c in commits if "verif hook" in c]
    checks = []
    for pid in ALL:
        if pid not in CLAIMED:
            continue
        tech, text, note, ref = CLAIMED[pid]
        checks.append({
            "property_id": pid,
            "quick_cmd": "./run.sh %s quick" % pid,
            "thorough_cmd": "./run.sh %s thorough" % pid,
            "evidence_file": "/verif/evidence/%s.json" % pid,
            "replay_cmd_template": "./run.sh %s quick --replay {path}" % pid,
            "engine": "mc",
            "level_claimed": {"category": "model_checking", "text": text + " " + LATER.get(pid, "") + " The exact alphabets, dimensions and totals of a run are in the rule text and counters of its evidence file.", "design_ref": ref},
            "level_note": note,
            "technique": tech,
        })
    m = {
        "version": 1,
        "setup_cmd": "./setup.sh",
        "hooks": {
            "guard": "verif (Go build tag)",
            "enable": "go build -tags verif (module /verif/mc with replace github.com/trustbloc/sidetree-core-go => /repo)",
            "baseline_off_cmd": "cd /repo && go test -mod=mod -vet=off -count=1 ./...",
            "source_commits": hooks,
            "add_only": True,
        },
        "engines": [{"name": "mc", "path": "/verif/mc", "serves_properties": sorted(CLAIMED.keys()),
                     "kind_free_text": "hand-written bounded-exhaustive explorer in Go: explicit-state search over the real transition functions with reference models in lock-step (hx, fx, ref/*, props/*)"}],
        "checks": checks,
        "not_applicable": [{"property_id": p, "reason": NOT_YET} for p in ALL if p not in CLAIMED],
        "notes": "All checks rebuild the checker from /repo's working tree on every invocation (run.sh). Known findings: /verif/known_findings.txt.",
    }
    json.dump(m, open("/verif/MANIFEST.json", "w"), indent=1)
    print("claimed:", len(checks), "not_applicable:", len(m["not_applicable"]))

main()
