#!/bin/bash
# usage: mkoverlay.sh <dir> [repo]  -- writes <dir>/overlay.json replacing "sync" / "sync/atomic" imports of /repo/pkg/batch/** by the
# explorer's shims (textual import rewrite of whatever is in the working tree; /repo itself is untouched).
set -e
OV="$1"; REPO="${2:-/repo}"; mkdir -p "$OV"
first=1
printf '{"Replace":{' > "$OV/overlay.json"
for f in $(ls "$REPO"/pkg/batch/*.go "$REPO"/pkg/batch/*/*.go 2>/dev/null | grep -v _test.go); do
  if grep -qE '^\s*([a-zA-Z_]+ )?"sync(/atomic)?"' "$f"; then
    out="$OV/$(echo "$f" | tr '/' '_')"
    sed -E -e 's#^(\s*)"sync"#\1"verif/mc/shim/sync"#' -e 's#^(\s*)"sync/atomic"#\1"verif/mc/shim/atomic"#' "$f" > "$out"
    [ $first = 1 ] || printf ',' >> "$OV/overlay.json"
    first=0
    printf '"%s":"%s"' "$f" "$out" >> "$OV/overlay.json"
  fi
done
printf '}}' >> "$OV/overlay.json"
