#!/bin/bash
# usage: cover.sh [tier] [IDs...]  -- diagnostic (not a registered check): runs the checks from a binary built with
# -cover over the repository's packages and lists the statements of the anchor files that no check executed.
# Output: bin/cover/<ID>.txt (per check), bin/cover/all.txt (merged), bin/cover/uncovered.txt
set -u
export GOFLAGS=-mod=mod GOPROXY=off GOSUMDB=off GOTOOLCHAIN=local CGO_ENABLED=0
ROOT="$(cd "$(dirname "$0")" && pwd)"; REPO=/repo
TIER="${1:-quick}"; shift || true
IDS="${*:-C01 C02 C03 C04 C05 C06 C07 C08 C09 C10 C11 C12 C13 C14 C15 C16 C17 C18 C19 C20}"
COV="$ROOT/bin/cover"; rm -rf "$COV"; mkdir -p "$COV/data"
OV="$ROOT/bin/ov.cover"; "$ROOT/mkoverlay.sh" "$OV" "$REPO" || exit 2
cp "$ROOT/mc/go.mod" "$OV/go.mod"; cp "$REPO/go.sum" "$OV/go.sum"
cd "$ROOT/mc"
# go build -cover instruments the original files, not the overlay: the packages whose sync imports are rewritten stay uninstrumented
PKGS=$(cd "$REPO" && go list ./pkg/... | grep -v -E "/pkg/batch(/|$)|/mocks|/verifhooks" | paste -sd,),verif/mc/cmd/check
go build -modfile="$OV/go.mod" -tags verif -overlay "$OV/overlay.json" -cover -coverpkg="$PKGS" -o "$COV/check" ./cmd/check || exit 2
rm -rf "$OV"
# evidence of a coverage run must not replace the evidence of the registered checks
export VERIF_EVIDENCE_DIR="$COV/evidence"; mkdir -p "$VERIF_EVIDENCE_DIR"
for id in $IDS; do
  mkdir -p "$COV/data/$id"
  GOCOVERDIR="$COV/data/$id" VERIF_ROOT="$ROOT" "$COV/check" --tier "$TIER" "$id" 2>&1 | tail -1 | cut -c1-200
  go tool covdata textfmt -i="$COV/data/$id" -o "$COV/$id.txt" 2>/dev/null
done
dirs=$(ls -d "$COV"/data/* | paste -sd,)
go tool covdata textfmt -i="$dirs" -o "$COV/all.txt"
python3 "$ROOT/cover_report.py" "$COV/all.txt" "$ROOT/properties.jsonl" > "$COV/uncovered.txt"
tail -30 "$COV/uncovered.txt"
