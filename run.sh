#!/bin/bash
# usage: run.sh <PROPERTY-ID> [quick|thorough] [extra check flags]
# Rebuilds the checker against /repo's current working tree (build tag verif) and runs one property.
set -u
export GOFLAGS=-mod=mod GOPROXY=off GOSUMDB=off GOTOOLCHAIN=local CGO_ENABLED=0
cd /verif/mc || exit 2
ID="$1"; TIER="${2:-${VERIF_TIER:-quick}}"; shift; shift 2>/dev/null || true
mkdir -p /verif/bin /verif/evidence
BIN=/verif/bin/check.$$
cp /repo/go.sum /verif/mc/go.sum 2>/dev/null
OV=/verif/bin/ov.$$
/verif/mkoverlay.sh "$OV" || { echo "HARNESS ERROR: overlay generation failed" >&2; exit 2; }
if ! go build -tags verif -overlay "$OV/overlay.json" -o "$BIN" ./cmd/check 2>/verif/bin/build.$$.log; then
  echo "HARNESS ERROR: build failed" >&2; cat /verif/bin/build.$$.log >&2; rm -rf /verif/bin/build.$$.log "$OV"; exit 2
fi
rm -rf /verif/bin/build.$$.log "$OV"
"$BIN" --tier "$TIER" "$@" "$ID"
rc=$?
rm -f "$BIN"
exit $rc
