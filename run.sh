#!/bin/bash
# usage: run.sh <PROPERTY-ID> [quick|thorough] [extra check flags]
# Rebuilds the checker against the repository's current working tree (build tag verif, sync import-rewrite overlay)
# and runs one property. VERIF_ROOT (default: this script's directory) and VERIF_REPO (default /repo) allow an
# isolated snapshot run (vp run --with-repo); registered commands use the defaults.
set -u
export GOFLAGS=-mod=mod GOPROXY=off GOSUMDB=off GOTOOLCHAIN=local CGO_ENABLED=0
ROOT="${VERIF_ROOT:-$(cd "$(dirname "$0")" && pwd)}"
REPO="${VERIF_REPO:-/repo}"
export VERIF_ROOT="$ROOT"
cd "$ROOT/mc" || exit 2
ID="$1"; TIER="${2:-${VERIF_TIER:-quick}}"; shift; shift 2>/dev/null || true
mkdir -p "$ROOT/bin" "$ROOT/evidence"
BIN="$ROOT/bin/check.$$"
OV="$ROOT/bin/ov.$$"
MODFILE="$OV/go.mod"
"$ROOT/mkoverlay.sh" "$OV" "$REPO" || { echo "HARNESS ERROR: overlay generation failed" >&2; exit 2; }
sed "s#=> /repo#=> $REPO#" go.mod > "$MODFILE"; cp "$REPO/go.sum" "$OV/go.sum"
if ! go build -modfile="$MODFILE" -tags verif -overlay "$OV/overlay.json" -o "$BIN" ./cmd/check 2>"$ROOT/bin/build.$$.log"; then
  echo "HARNESS ERROR: build failed" >&2; cat "$ROOT/bin/build.$$.log" >&2; rm -rf "$ROOT/bin/build.$$.log" "$OV"; exit 2
fi
RACEBIN=""
if [ "$ID" = "C16" ] && [ "$TIER" = "thorough" ]; then
  # supporting pass: the same thread bodies free-running under the race detector (no scheduler overlay)
  RACEBIN="$ROOT/bin/check.race.$$"
  if CGO_ENABLED=1 go build -modfile="$MODFILE" -race -tags verif -o "$RACEBIN" ./cmd/check 2>"$ROOT/bin/build.$$.log"; then
    export VERIF_RACE_BIN="$RACEBIN"
  else
    echo "note: -race build unavailable, supporting race pass skipped" >&2; RACEBIN=""
  fi
fi
rm -rf "$ROOT/bin/build.$$.log" "$OV"
"$BIN" --tier "$TIER" "$@" "$ID"
rc=$?
rm -f "$BIN" $RACEBIN
exit $rc
