#!/bin/bash
# Builds the framework once (warms the Go build cache); offline.
set -e
export GOFLAGS=-mod=mod GOPROXY=off GOSUMDB=off GOTOOLCHAIN=local CGO_ENABLED=0
cd /verif/mc
cp /repo/go.sum /verif/mc/go.sum
mkdir -p /verif/bin /verif/evidence
/verif/mkoverlay.sh /verif/bin/ov.setup
go build -tags verif -overlay /verif/bin/ov.setup/overlay.json -o /verif/bin/check ./cmd/check
rm -rf /verif/bin/ov.setup
echo setup ok
