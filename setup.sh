#!/bin/bash
# Builds the framework once (warms the Go build cache); offline.
set -e
export GOFLAGS=-mod=mod GOPROXY=off GOSUMDB=off GOTOOLCHAIN=local CGO_ENABLED=0
ROOT="${VERIF_ROOT:-$(cd "$(dirname "$0")" && pwd)}"
REPO="${VERIF_REPO:-/repo}"
cd "$ROOT/mc"
mkdir -p "$ROOT/bin" "$ROOT/evidence"
OV="$ROOT/bin/ov.setup"
"$ROOT/mkoverlay.sh" "$OV" "$REPO"
sed "s#=> /repo#=> $REPO#" go.mod > "$OV/go.mod"; cp "$REPO/go.sum" "$OV/go.sum"
go build -modfile="$OV/go.mod" -tags verif -overlay "$OV/overlay.json" -o "$ROOT/bin/check" ./cmd/check
rm -rf "$OV"
echo setup ok
