#!/bin/bash
# Builds the framework once (warms the Go build cache); offline.
set -e
export GOFLAGS=-mod=mod GOPROXY=off GOSUMDB=off GOTOOLCHAIN=local CGO_ENABLED=0
cd /verif/mc
cp /repo/go.sum /verif/mc/go.sum
mkdir -p /verif/bin /verif/evidence
go build -tags verif -o /verif/bin/check ./cmd/check
echo setup ok
