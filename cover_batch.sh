#!/bin/bash
# usage: cover_batch.sh [tier]  -- diagnostic: statement coverage of pkg/batch/** under C16 and C20. go build -cover cannot
# instrument files replaced by the overlay, so the files are instrumented with `go tool cover`, their sync imports rewritten as
# mkoverlay.sh does, and injected through the overlay together with a registration file per package (verif/mc/covreg).
set -eu
export GOFLAGS=-mod=mod GOPROXY=off GOSUMDB=off GOTOOLCHAIN=local CGO_ENABLED=0
ROOT="$(cd "$(dirname "$0")" && pwd)"; REPO=/repo; TIER="${1:-quick}"
COV="$ROOT/bin/cover_batch"; rm -rf "$COV"; mkdir -p "$COV/src" "$COV/evidence"
printf '{"Replace":{' > "$COV/overlay.json"; first=1; idx=0
for dir in pkg/batch pkg/batch/cutter pkg/batch/opqueue; do
  pkgname=$(basename "$dir"); reg="$COV/src/$(echo $dir | tr / _)_zz_verifcover.go"
  { echo "package $pkgname"; echo; echo 'import "verif/mc/covreg"'; echo; echo "func init() {"; } > "$reg"
  for f in $(ls "$REPO/$dir"/*.go | grep -v _test.go); do
    grep -q "go:build verif" "$f" && continue   # the hook file stays as it is
    out="$COV/src/$(echo "$f" | tr '/' '_')"
    go tool cover -mode=set -var="VerifCover_$idx" -o "$out" "$f"
    sed -i -E -e 's#^(\s*)"sync"#\1"verif/mc/shim/sync"#' -e 's#^(\s*)"sync/atomic"#\1"verif/mc/shim/atomic"#' "$out"
    echo "	covreg.Register(\"$dir/$(basename $f)\", VerifCover_$idx.Count[:], VerifCover_$idx.Pos[:])" >> "$reg"
    [ $first = 1 ] || printf ',' >> "$COV/overlay.json"; first=0
    printf '"%s":"%s"' "$f" "$out" >> "$COV/overlay.json"
    idx=$((idx+1))
  done
  echo "}" >> "$reg"
  printf ',"%s":"%s"' "$REPO/$dir/zz_verifcover.go" "$reg" >> "$COV/overlay.json"
done
printf '}}' >> "$COV/overlay.json"
cd "$ROOT/mc"
go build -tags verif -overlay "$COV/overlay.json" -o "$COV/check" ./cmd/check
export VERIF_EVIDENCE_DIR="$COV/evidence" VERIF_BATCHCOVER="$COV/raw.txt" VERIF_ROOT="$ROOT"
for id in C16 C20 C15; do "$COV/check" --tier "$TIER" "$id" 2>&1 | tail -1 | cut -c1-160; done
python3 - "$COV/raw.txt" <<'PY'
import sys, collections
cov = collections.defaultdict(int)
for l in open(sys.argv[1]):
    loc, c = l.rsplit(' ', 1)
    cov[loc] = max(cov[loc], int(c))
byfile = collections.defaultdict(list)
for loc, c in cov.items():
    f, r = loc.rsplit(':', 1)
    byfile[f].append((int(r.split('-')[0]), int(r.split('-')[1]), c))
for f in sorted(byfile):
    src = open('/repo/' + f).read().split('\n')
    un = sorted(b for b in byfile[f] if b[2] == 0)
    print(f"## {f}: {len(un)} of {len(byfile[f])} blocks never executed")
    for s, e, _ in un:
        print(f"   {f}:{s}-{e}: {src[s-1].strip()[:110]}")
PY
