package hx

import (
	"bufio"
	"bytes"
	"fmt"
	"io"
	"os"
	"os/exec"
	"runtime/debug"
	"strings"
	"sync"
	"time"
)

// Worker subprocess pool: requests are executed one at a time per worker process, so that a fatal runtime error
// of the code under test (stack overflow, out of memory - not recoverable in-process) is attributed to exactly the
// request that was in flight, reported, and the exploration continues with a fresh worker.

// ServeWorker is the worker main loop: one request per line on stdin, one response per line on stdout.
func ServeWorker(handle func(req []byte) []byte) {
	debug.SetMaxStack(64 << 20) // fail fast on runaway recursion instead of growing to 1 GB
	in := bufio.NewReaderSize(os.Stdin, 1<<20)
	out := bufio.NewWriter(os.Stdout)
	for {
		line, err := in.ReadBytes('\n')
		if len(bytes.TrimSpace(line)) > 0 {
			resp := handle(bytes.TrimRight(line, "\n"))
			resp = bytes.ReplaceAll(resp, []byte("\n"), []byte(" "))
			out.Write(resp)
			out.WriteByte('\n')
			out.Flush()
		}
		if err != nil {
			return
		}
	}
}

type workerProc struct {
	cmd    *exec.Cmd
	stdin  io.WriteCloser
	stdout *bufio.Reader
	stderr *bytes.Buffer
}

// Pool is a pool of worker subprocesses.
type Pool struct {
	id      string
	free    chan *workerProc
	n       int
	Timeout time.Duration
	mu      sync.Mutex
	Fatals  int
}

// NewPool prepares n workers running `<this binary> --worker <id>` (started lazily).
func NewPool(id string, n int) *Pool {
	p := &Pool{id: id, free: make(chan *workerProc, n), n: n, Timeout: 60 * time.Second}
	for i := 0; i < n; i++ {
		p.free <- nil
	}
	return p
}

func (p *Pool) start() (*workerProc, error) {
	cmd := exec.Command(os.Args[0], "--worker", p.id)
	cmd.Env = append(os.Environ(), "GOMAXPROCS=2", "GOMEMLIMIT=2GiB")
	stdin, err := cmd.StdinPipe()
	if err != nil {
		return nil, err
	}
	so, err := cmd.StdoutPipe()
	if err != nil {
		return nil, err
	}
	w := &workerProc{cmd: cmd, stdin: stdin, stdout: bufio.NewReaderSize(so, 1<<20), stderr: &bytes.Buffer{}}
	cmd.Stderr = w.stderr
	if err := cmd.Start(); err != nil {
		return nil, err
	}
	return w, nil
}

// Exec runs one request in a worker. fatal is non-empty when the worker died or hung while executing it
// (the kind of fatal error); the worker is then replaced.
func (p *Pool) Exec(req []byte) (resp []byte, fatal string) {
	w := <-p.free
	defer func() { p.free <- w }()
	if w == nil {
		var err error
		w, err = p.start()
		if err != nil {
			panic(fmt.Sprintf("cannot start worker: %v", err))
		}
	}
	req = bytes.ReplaceAll(req, []byte("\n"), []byte(" "))
	type result struct {
		line []byte
		err  error
	}
	ch := make(chan result, 1)
	ww := w
	go func() {
		if _, err := ww.stdin.Write(append(append([]byte{}, req...), '\n')); err != nil {
			ch <- result{nil, err}
			return
		}
		line, err := ww.stdout.ReadBytes('\n')
		ch <- result{line, err}
	}()
	select {
	case res := <-ch:
		if res.err == nil {
			return bytes.TrimRight(res.line, "\n"), ""
		}
		_ = w.cmd.Wait()
		kind := fatalKind(w.stderr.String())
		w = nil
		p.mu.Lock()
		p.Fatals++
		p.mu.Unlock()
		return nil, kind
	case <-time.After(p.Timeout):
		_ = w.cmd.Process.Kill()
		_ = w.cmd.Wait()
		w = nil
		p.mu.Lock()
		p.Fatals++
		p.mu.Unlock()
		return nil, "hang"
	}
}

// Close stops all workers.
func (p *Pool) Close() {
	for i := 0; i < p.n; i++ {
		w := <-p.free
		if w != nil {
			_ = w.stdin.Close()
			_ = w.cmd.Wait()
		}
	}
}

func fatalKind(stderr string) string {
	switch {
	case strings.Contains(stderr, "stack overflow") || strings.Contains(stderr, "goroutine stack exceeds"):
		return "stack-overflow"
	case strings.Contains(stderr, "out of memory") || strings.Contains(stderr, "cannot allocate memory"):
		return "out-of-memory"
	case strings.Contains(stderr, "fatal error:"):
		i := strings.Index(stderr, "fatal error:")
		line := stderr[i:]
		if j := strings.IndexByte(line, '\n'); j > 0 {
			line = line[:j]
		}
		return strings.ReplaceAll(strings.TrimSpace(strings.TrimPrefix(line, "fatal error:")), " ", "-")
	}
	return "worker-died"
}
