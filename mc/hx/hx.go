// Package hx is the shared harness plumbing: run context, violation reporting with replay
// artefacts, known-findings handling, evidence files and a parallel-for helper.
package hx

import (
	"bufio"
	"crypto/sha256"
	"encoding/hex"
	"encoding/json"
	"fmt"
	"os"
	"path/filepath"
	"runtime"
	"runtime/debug"
	"sort"
	"strings"
	"sync"
	"sync/atomic"
	"time"
)

// Root is the /verif directory (VERIF_ROOT overrides it for isolated snapshot runs).
var Root = func() string {
	if v := os.Getenv("VERIF_ROOT"); v != "" {
		return v
	}
	return "/verif"
}()

// Run is the context of one check execution.
type Run struct {
	ID     string
	Tier   string
	Seed   int64
	Only   string // when non-empty only the case with this id is executed (replay)
	Start  time.Time
	Budget time.Duration // internal time budget; exceeding it ends enumeration with exhaustive=false

	mu         sync.Mutex
	violations map[string]*violation // by class key
	order      []string
	known      map[string]string // key -> text (findings listed for this property)
	knownSeen  map[string]int

	Evaluations int64
	nontrivial  map[string]struct{}
	States      int64
	Transitions int64
	Traces      int64
	samples     []interface{}
	Extra       map[string]interface{}
	Assumptions []string
	Rule        string
	Exhaustive  bool
	Outcomes    map[string]int64
}

type violation struct {
	Key    string
	CaseID string
	Detail string
	Case   interface{}
	Count  int
}

// NewRun creates the run context and loads the known-findings file.
func NewRun(id, tier string, seed int64) *Run {
	r := &Run{ID: id, Tier: tier, Seed: seed, Start: time.Now(),
		violations: map[string]*violation{}, known: map[string]string{}, knownSeen: map[string]int{},
		nontrivial: map[string]struct{}{}, Extra: map[string]interface{}{}, Exhaustive: true,
		Outcomes: map[string]int64{}}
	r.loadKnown()
	Current = r
	return r
}

func (r *Run) loadKnown() {
	f, err := os.Open(filepath.Join(Root, "known_findings.txt"))
	if err != nil {
		return
	}
	defer f.Close()
	sc := bufio.NewScanner(f)
	for sc.Scan() {
		line := strings.TrimSpace(sc.Text())
		if !strings.HasPrefix(line, "finding:") {
			continue // "fixed:" entries and comments suppress nothing
		}
		fields := strings.Fields(strings.TrimPrefix(line, "finding:"))
		var prop, key string
		var rest []string
		for _, f := range fields {
			switch {
			case strings.HasPrefix(f, "property=") && prop == "":
				prop = strings.TrimPrefix(f, "property=")
			case strings.HasPrefix(f, "key=") && key == "":
				key = strings.TrimPrefix(f, "key=")
			default:
				rest = append(rest, f)
			}
		}
		if prop == r.ID && key != "" {
			r.known[key] = strings.Join(rest, " ")
		}
	}
}

// Want reports whether the case with the given id should be executed.
func (r *Run) Want(caseID string) bool {
	return r.Only == "" || r.Only == caseID || strings.HasPrefix(r.Only, "panic|") // a recorded crash has no case id of its own: replay runs everything
}

// OverBudget reports whether the internal time budget is used up; the caller should stop enumerating
// and the run is marked non-exhaustive.
func (r *Run) OverBudget() bool {
	if r.Budget > 0 && time.Since(r.Start) > r.Budget {
		r.mu.Lock()
		r.Exhaustive = false
		r.mu.Unlock()
		return true
	}
	return false
}

// Eval counts one evaluation.
func (r *Run) Eval() { atomic.AddInt64(&r.Evaluations, 1) }

// EvalN counts n evaluations.
func (r *Run) EvalN(n int64) { atomic.AddInt64(&r.Evaluations, n) }

// State counts one explored state.
func (r *Run) State() { atomic.AddInt64(&r.States, 1) }

// Trans counts n transitions.
func (r *Run) Trans(n int64) { atomic.AddInt64(&r.Transitions, n) }

// Trace counts n traces validated against the implementation.
func (r *Run) Trace(n int64) { atomic.AddInt64(&r.Traces, n) }

// Nontrivial records the key of a distinct non-trivial case.
func (r *Run) Nontrivial(key string) {
	h := sha256.Sum256([]byte(key))
	k := string(h[:12])
	r.mu.Lock()
	r.nontrivial[k] = struct{}{}
	r.mu.Unlock()
}

// Outcome counts an observed outcome class (used to detect vacuity).
func (r *Run) Outcome(class string) {
	r.mu.Lock()
	r.Outcomes[class]++
	r.mu.Unlock()
}

// Sample stores up to 6 sample cases for the evidence file.
func (r *Run) Sample(s interface{}) {
	r.mu.Lock()
	if len(r.samples) < 6 {
		r.samples = append(r.samples, s)
	}
	r.mu.Unlock()
}

// Violation records a violation. key identifies the class of failing input / call site (used for the
// known-findings file); caseID identifies the exact case for replay; c is stored in the replay file.
func (r *Run) Violation(key, caseID, detail string, c interface{}) {
	r.mu.Lock()
	defer r.mu.Unlock()
	if v, ok := r.violations[key]; ok {
		v.Count++
		return
	}
	r.violations[key] = &violation{Key: key, CaseID: caseID, Detail: detail, Case: c, Count: 1}
	r.order = append(r.order, key)
}

// Finish prints verdict lines, writes evidence and returns the exit code.
func (r *Run) Finish(level string) int {
	exit := 0
	nviol := 0
	sort.Strings(r.order)
	for _, key := range r.order {
		v := r.violations[key]
		if text, ok := r.known[key]; ok {
			fmt.Printf("KNOWN-FINDING: property=%s key=%s %s (re-observed %d times; first case %s)\n", r.ID, key, text, v.Count, v.CaseID)
			r.knownSeen[key] = v.Count
			continue
		}
		nviol++
		exit = 1
		if nviol > maxPrint() {
			continue
		}
		path := r.writeReplay(v)
		fmt.Printf("VIOLATION property=%s replay=%s\n", r.ID, path)
		fmt.Printf("  class=%s case=%s occurrences=%d\n  %s\n", key, v.CaseID, v.Count, Trunc(v.Detail, 1500))
	}
	if nviol > maxPrint() {
		fmt.Printf("... %d further violation classes not printed (set VERIF_MAXPRINT to see more)\n", nviol-maxPrint())
	}
	r.writeEvidence(level, nviol)
	if exit == 0 {
		fmt.Printf("OK property=%s tier=%s evaluations=%d distinct_nontrivial=%d states=%d transitions=%d exhaustive=%v wall=%.1fs\n",
			r.ID, r.Tier, r.Evaluations, len(r.nontrivial), r.States, r.Transitions, r.Exhaustive, time.Since(r.Start).Seconds())
	}
	return exit
}

func (r *Run) writeReplay(v *violation) string {
	dir := filepath.Join(Root, "replays", r.ID)
	_ = os.MkdirAll(dir, 0o755)
	h := sha256.Sum256([]byte(v.Key + "|" + v.CaseID))
	path := filepath.Join(dir, hex.EncodeToString(h[:8])+".json")
	b, _ := json.MarshalIndent(map[string]interface{}{
		"property": r.ID, "class": v.Key, "case_id": v.CaseID, "detail": v.Detail, "case": v.Case, "tier": r.Tier,
	}, "", " ")
	_ = os.WriteFile(path, b, 0o644)
	return path
}

func (r *Run) writeEvidence(level string, nviol int) {
	if r.Only != "" {
		return // replays do not rewrite evidence
	}
	cov := map[string]interface{}{
		"evaluations":         r.Evaluations,
		"distinct_nontrivial": len(r.nontrivial),
		"rule":                r.Rule,
		"samples":             r.samples,
		"exhaustive":          r.Exhaustive,
		"outcome_histogram":   r.Outcomes,
	}
	if r.States > 0 {
		cov["states"] = r.States
		cov["transitions"] = r.Transitions
		cov["traces_validated_against_impl"] = r.Traces
	}
	for k, v := range r.Extra {
		cov[k] = v
	}
	if len(r.knownSeen) > 0 {
		cov["known_findings_reobserved"] = r.knownSeen
	}
	if len(r.samples) == 0 {
		cov["samples"] = []interface{}{"(no case executed)"}
	}
	ev := map[string]interface{}{
		"property_id": r.ID, "tier": r.Tier, "seed": r.Seed, "level": level, "coverage": cov,
		"assumptions": r.Assumptions, "wall_s": time.Since(r.Start).Seconds(), "violations": nviol,
	}
	if r.Assumptions == nil {
		ev["assumptions"] = []string{}
	}
	b, _ := json.MarshalIndent(ev, "", " ")
	dir := filepath.Join(Root, "evidence")
	if d := os.Getenv("VERIF_EVIDENCE_DIR"); d != "" { // diagnostic runs (cover.sh) keep the registered evidence untouched
		dir = d
	}
	_ = os.MkdirAll(dir, 0o755)
	_ = os.WriteFile(filepath.Join(dir, r.ID+".json"), b, 0o644)
}

// ParallelFor runs f(i) for i in [0,n) on all cores; f must be safe for concurrent use.
// Current is the run of this process (set by NewRun); ParallelFor and main report panics of the code under test to it.
var Current *Run

// LibraryPanic classifies a recovered panic by the innermost non-runtime frame of its stack: a frame of the repository (or of
// one of its dependencies) means the code under test crashed on an explored input; a harness frame means a harness bug.
// It returns the frame's function name, or "" for a harness panic.
func LibraryPanic(stack []byte) string {
	lines := strings.Split(string(stack), "\n")
	seenPanic := false
	for _, l := range lines {
		if strings.HasPrefix(l, "\t") || l == "" || strings.HasPrefix(l, "goroutine ") {
			continue
		}
		fn := l
		if i := strings.LastIndex(fn, "("); i > 0 {
			fn = fn[:i]
		}
		if strings.HasPrefix(fn, "panic") || strings.HasPrefix(fn, "runtime.") {
			if strings.HasPrefix(fn, "panic") || strings.HasPrefix(fn, "runtime.gopanic") || strings.HasPrefix(fn, "runtime.panic") || strings.HasPrefix(fn, "runtime.sigpanic") || strings.HasPrefix(fn, "runtime.goPanic") {
				seenPanic = true
			}
			continue
		}
		if !seenPanic {
			continue // frames of the recover handler itself (debug.Stack, deferred closures)
		}
		if strings.HasPrefix(fn, "verif/mc/") || strings.HasPrefix(fn, "main.") {
			return ""
		}
		return fn
	}
	return ""
}

// ReportPanic records a panic of the code under test as a violation of the current run and returns true; for a harness
// panic it returns false (the caller re-panics).
func ReportPanic(p interface{}, stack []byte, where string) bool {
	fn := LibraryPanic(stack)
	if fn == "" || Current == nil {
		return false
	}
	if i := strings.LastIndex(fn, "/"); i >= 0 {
		fn = fn[i+1:]
	}
	Current.Violation("panic-in-code-under-test:"+fn, "panic|"+where, fmt.Sprintf("the code under test panicked on an explored input (%s): %v\n%s", where, p, Trunc(string(stack), 3000)), nil)
	return true
}

func guarded(f func(i int), i int) {
	defer func() {
		if p := recover(); p != nil {
			st := debug.Stack()
			if !ReportPanic(p, st, fmt.Sprintf("parallel-item-%d", i)) {
				panic(fmt.Sprintf("%v\n%s", p, st))
			}
		}
	}()
	f(i)
}

func ParallelFor(n int, f func(i int)) {
	workers := runtime.GOMAXPROCS(0)
	if workers > n {
		workers = n
	}
	if workers <= 1 {
		for i := 0; i < n; i++ {
			guarded(f, i)
		}
		return
	}
	var next int64 = -1
	var wg sync.WaitGroup
	for w := 0; w < workers; w++ {
		wg.Add(1)
		go func() {
			defer wg.Done()
			for {
				i := int(atomic.AddInt64(&next, 1))
				if i >= n {
					return
				}
				guarded(f, i)
			}
		}()
	}
	wg.Wait()
}

// Short returns a short hash of s (for case ids).
func Short(s string) string {
	h := sha256.Sum256([]byte(s))
	return hex.EncodeToString(h[:6])
}

// Trunc truncates s for messages.
func Trunc(s string, n int) string {
	if len(s) <= n {
		return s
	}
	return s[:n] + "..."
}

type watchEntry struct {
	id    string
	start time.Time
}

var (
	watchMu   sync.Mutex
	watchMap  = map[int64]watchEntry{}
	watchSeq  int64
	watchOnce sync.Once
)

// WatchLimit is the per-call watchdog limit (hang detection, about 10^5 times the normal cost).
var WatchLimit = 120 * time.Second

// Watch registers a call into the implementation for hang detection; call the returned func when it returns.
// A call that exceeds WatchLimit is reported as a non-termination violation and the run ends.
func (r *Run) Watch(caseID string) func() {
	watchOnce.Do(func() {
		go func() {
			for {
				time.Sleep(2 * time.Second)
				watchMu.Lock()
				for _, e := range watchMap {
					if time.Since(e.start) > WatchLimit {
						watchMu.Unlock()
						r.Violation("non-termination", e.id, fmt.Sprintf("call did not return within %s", WatchLimit), map[string]string{"case": e.id})
						r.Exhaustive = false
						os.Exit(r.Finish("model_checking"))
					}
				}
				watchMu.Unlock()
			}
		}()
	})
	watchMu.Lock()
	watchSeq++
	k := watchSeq
	watchMap[k] = watchEntry{id: caseID, start: time.Now()}
	watchMu.Unlock()
	return func() {
		watchMu.Lock()
		delete(watchMap, k)
		watchMu.Unlock()
	}
}

func maxPrint() int {
	n := 25
	if v := os.Getenv("VERIF_MAXPRINT"); v != "" {
		fmt.Sscan(v, &n)
	}
	return n
}
