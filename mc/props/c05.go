package props

import (
	"fmt"
	"sync"

	"github.com/trustbloc/sidetree-core-go/pkg/api/protocol"
	"github.com/trustbloc/sidetree-core-go/pkg/versions/1_0/operationparser"

	"verif/mc/fx"
	"verif/mc/hx"
	"verif/mc/ref/sidetree"
)

func init() { register("C05", c05) }

type spyTime struct {
	mu    sync.Mutex
	calls [][2]int64
}

func (s *spyTime) Validate(from, until int64) error {
	s.mu.Lock()
	s.calls = append(s.calls, [2]int64{from, until})
	s.mu.Unlock()
	return nil
}

type protoVariant struct {
	name string
	p    protocol.Protocol
}

func c05Variants() []protoVariant {
	base := fx.DefaultProtocol()
	var out []protoVariant
	deltas := []uint64{7, 300}
	others := []struct {
		name string
		mut  func(p *protocol.Protocol, alt int)
	}{
		{"base", func(p *protocol.Protocol, alt int) {}},
		{"MaxDeltaSize", func(p *protocol.Protocol, alt int) { p.MaxDeltaSize = []uint{1100, 5003}[alt] }},
		{"MaxOperationSize", func(p *protocol.Protocol, alt int) { p.MaxOperationSize = []uint{4001, 9001}[alt] }},
		{"MaxOperationCount", func(p *protocol.Protocol, alt int) { p.MaxOperationCount = []uint{1, 17}[alt] }},
		{"MaxOperationHashLength", func(p *protocol.Protocol, alt int) { p.MaxOperationHashLength = []uint{93, 211}[alt] }},
		{"NonceSize", func(p *protocol.Protocol, alt int) { p.NonceSize = []uint64{8, 32}[alt] }},
		{"MaxProofFileSize", func(p *protocol.Protocol, alt int) { p.MaxProofFileSize = []uint{1013, 30011}[alt] }},
		{"MaxCasURILength", func(p *protocol.Protocol, alt int) { p.MaxCasURILength = []uint{57, 305}[alt] }},
		{"MaxMemoryDecompressionFactor", func(p *protocol.Protocol, alt int) { p.MaxMemoryDecompressionFactor = []uint{2, 9}[alt] }},
		{"MaxChunkFileSize", func(p *protocol.Protocol, alt int) { p.MaxChunkFileSize = []uint{3001, 70001}[alt] }},
		// the version the operations are batched under starts just before the anchoring time / shortly after time zero
		// (an anchorFrom below the genesis time of the version is legal: the window is signed by the client)
		{"GenesisTime", func(p *protocol.Protocol, alt int) { p.GenesisTime = []uint64{995, 3}[alt] }},
	}
	for _, d := range deltas {
		for _, o := range others {
			for alt := 0; alt < 2; alt++ {
				if o.name == "base" && alt == 1 {
					continue
				}
				p := base
				p.MaxOperationTimeDelta = d
				o.mut(&p, alt)
				out = append(out, protoVariant{fmt.Sprintf("delta=%d,%s#%d", d, o.name, alt), p})
			}
		}
	}
	return out
}

func c05(r *hx.Run) {
	fx.Quiet()
	r.Rule = "bounded-exhaustive enumeration of (anchorFrom, anchorUntil) around every boundary of anchoring time T=1000 (incl. negative bounds) x operation type x protocol configurations varying the time delta independently of every other parameter (including the genesis time of the version); each case is executed on the real processor/applier (effect) and the real parser with a spy time validator (intake) and compared with the independent window predicate; under a second version with another delta every single protocol-version lookup of the resolution is also made to fail in turn (error, same result, or the result without the operation). Non-trivial: the window is declared (from or until non-zero)."
	const T = 1000
	kt, code := fx.Ed25519, fx.SHA256
	keys := map[string]*fx.Key{}
	for _, n := range []string{"r0", "r1", "u0", "u1", "v0"} {
		keys[n] = fx.NewKey(kt, "c05/"+n)
	}
	c := func(n string) string { return fx.Commit(keys[n], code) }
	d0 := []interface{}{fx.AddServicePatch("s0", "https://example.com/s0")}
	creq, suffix := fx.Create(&fx.CreateSpec{RecoveryCommit: c("r0"), UpdateCommit: c("u0"), Patches: d0, Code: code})
	createOp := &fx.PoolOp{ID: "C", Type: "create", Req: creq}
	createOp.Abs = sidetree.Op{ID: "C", Type: "create", ParseOK: true, NextUpdate: c("u0"), NextRecovery: c("r0"), Delta: "ok", Patches: d0}

	type win struct{ from, until int64 }
	variants := c05Variants()
	type job struct {
		v   protoVariant
		typ string
		w   win
	}
	var jobs []job
	for _, v := range variants {
		d := int64(v.p.MaxOperationTimeDelta)
		var wins []win
		for _, f := range []int64{0, T - 1, T, T + 1} {
			for _, u := range []int64{0, T - 1, T, T + 1, T + 5} {
				wins = append(wins, win{f, u})
			}
		}
		for _, f := range []int64{T - d - 1, T - d, T - d + 1, 1} {
			wins = append(wins, win{f, 0})
			// explicit anchorUntil with a window wider than / equal to / narrower than the default delta
			for _, u := range []int64{T - 1, T, T + 1, T + 5, f + d, f + d + 1} {
				wins = append(wins, win{f, u})
			}
		}
		// negative bounds (the members are signed integers and nothing forbids them): a window that ended before time zero is
		// empty, one that starts before time zero and has its end defaulted ends at from + delta
		for _, w := range []win{{0, -1}, {-5, -1}, {-1, 0}, {-d - 1, 0}, {T - d - 1 - (1 << 40), 0}, {-5, T}, {-5, T - 1}, {-(1 << 50), T + 5}, {T, -1}} {
			wins = append(wins, w)
		}
		for _, typ := range []string{"update", "recover", "deactivate"} {
			for _, w := range wins {
				jobs = append(jobs, job{v, typ, w})
			}
		}
	}
	// outcome per (type, window, delta) must not depend on other parameters
	var mu sync.Mutex
	byKey := map[string]map[string]string{} // key -> outcome -> variant name
	hx.ParallelFor(len(jobs), func(i int) {
		j := jobs[i]
		caseID := fmt.Sprintf("%s|%s|from=%d|until=%d", j.v.name, j.typ, j.w.from, j.w.until)
		if !r.Want(caseID) {
			return
		}
		delta := j.v.p.MaxOperationTimeDelta
		spy := &spyTime{}
		ver := fx.NewVersion(j.v.p, &fx.VersionOpts{ParserOpts: []operationparser.Option{operationparser.WithAnchorTimeValidator(spy)}})
		client := fx.NewClient(ver)
		var spec *fx.OpSpec
		var abs sidetree.Op
		patches := []interface{}{fx.AddServicePatch("x1", "https://example.com/x1")}
		switch j.typ {
		case "update":
			spec = &fx.OpSpec{Type: "update", Suffix: suffix, SignKey: keys["u0"], NextUpdate: c("u1"), Patches: patches, Code: code}
			abs = sidetree.Op{ParseOK: true, Reveals: c("u0"), Authorized: true, NextUpdate: c("u1"), Delta: "ok", Patches: patches}
		case "recover":
			spec = &fx.OpSpec{Type: "recover", Suffix: suffix, SignKey: keys["r0"], NextRecov: c("r1"), NextUpdate: c("v0"), Patches: patches, Code: code}
			abs = sidetree.Op{ParseOK: true, Reveals: c("r0"), Authorized: true, NextUpdate: c("v0"), NextRecovery: c("r1"), Delta: "ok", Patches: patches}
		case "deactivate":
			spec = &fx.OpSpec{Type: "deactivate", Suffix: suffix, SignKey: keys["r0"], Code: code}
			abs = sidetree.Op{ParseOK: true, Reveals: c("r0"), Authorized: true}
		}
		spec.From, spec.Until = j.w.from, j.w.until
		abs.From, abs.Until = j.w.from, j.w.until
		req := spec.Build()
		po := &fx.PoolOp{ID: "X", Req: req, Abs: abs}
		po.Abs.ID, po.Abs.Type = "X", j.typ
		switch j.typ {
		case "update":
			po.Type = "update"
		case "recover":
			po.Type = "recover"
		default:
			po.Type = "deactivate"
		}
		genesis, createTime := j.v.p.GenesisTime, uint64(500)
		if genesis > createTime {
			createTime = genesis
		}
		placed := []fx.Placed{{Op: createOp, Time: createTime, Num: 0, Published: true, Version: genesis}, {Op: po, Time: T, Num: 1, Published: true, Version: genesis}}
		rm, err := ResolveImpl(client, suffix, placed)
		impl := ProjectImpl(rm, err)
		st, merr := ResolveModel(placed, nil, delta)
		model := ProjectModel(st, merr)
		r.Eval()
		r.State()
		r.Trans(2)
		r.Trace(1)
		in := sidetree.InWindow(j.w.from, j.w.until, T, delta)
		r.Outcome(fmt.Sprintf("%s in-window=%v", j.typ, in))
		if j.w.from != 0 || j.w.until != 0 {
			r.Nontrivial(fmt.Sprintf("%s|%d|%d|%d", j.typ, j.w.from, j.w.until, delta))
		}
		if impl != model {
			r.Violation(fmt.Sprintf("applier-window:%s:untilDefaulted=%v", j.typ, j.w.until == 0 && j.w.from != 0), caseID,
				fmt.Sprintf("%s anchored at T=%d with anchorFrom=%d anchorUntil=%d, maxOperationTimeDelta=%d (in window: %v) under %s\n  impl : %s\n  model: %s",
					j.typ, T, j.w.from, j.w.until, delta, in, j.v.name, impl.Core(), model.Core()),
				map[string]interface{}{"variant": j.v.name, "type": j.typ, "from": j.w.from, "until": j.w.until, "T": T})
		}
		// the window is judged under the protocol version the operation was batched under (0), not under a later version that
		// is in force at its anchoring time and has another delta
		hostileGenesis := uint64(T) - 100
		if genesis >= hostileGenesis {
			hostileGenesis = genesis + 1
		}
		rm2, err2 := ResolveImpl(hostileSecondVersion(ver, hostileGenesis), suffix, placed)
		r.Eval()
		if impl2 := ProjectImpl(rm2, err2); impl2 != impl {
			r.Violation(fmt.Sprintf("window-under-version-at-anchoring-time:%s", j.typ), caseID,
				fmt.Sprintf("%s (batched under the earlier protocol version) anchored at T=%d with anchorFrom=%d anchorUntil=%d resolves differently once a later protocol version with another delta is in force at T\n  one version : %s\n  two versions: %s",
					j.typ, T, j.w.from, j.w.until, impl.Core(), impl2.Core()), nil)
		}
		// ... and when one protocol-version lookup of that resolution fails (each position in turn): an error, the same result, or
		// the result without the operation - its window is never judged under the later version
		if j.w.from != 0 || j.w.until != 0 {
			allowed := map[Result]bool{impl: true, ProjectImpl(ResolveImpl(client, suffix, placed[:1])): true}
			flakySweep(r, "window-under-another-version-after-failed-lookup:"+j.typ, caseID, hostileSecondVersion(ver, hostileGenesis), suffix, placed, allowed, 8)
			// the later version differs in nothing but the delta (it would accept the operation and judge its window differently)
			for _, d2 := range []uint64{delta + 100000, 1} {
				p2 := j.v.p
				p2.GenesisTime, p2.MaxOperationTimeDelta = hostileGenesis, d2
				c2 := fx.NewClient(ver, fx.NewVersion(p2, nil))
				c2.SetCurrent(ver)
				if noFault := ProjectImpl(ResolveImpl(c2, suffix, placed)); noFault != impl {
					r.Violation("window-under-version-at-anchoring-time:"+j.typ, caseID+fmt.Sprintf("|delta2=%d", d2), fmt.Sprintf("a later version with delta %d in force at T changes the result\n  one version : %s\n  two versions: %s", d2, impl.Core(), noFault.Core()), nil)
				}
				flakySweep(r, "window-under-another-version-after-failed-lookup:"+j.typ, caseID+fmt.Sprintf("|delta2=%d", d2), c2, suffix, placed, allowed, 8)
			}
		}
		// intake: spy must see the effective window
		_, perr := ver.Parser.Parse("did:sidetree", req)
		wantUntil := j.w.until
		if j.w.until == 0 && j.w.from != 0 {
			wantUntil = j.w.from + int64(delta)
		}
		spy.mu.Lock()
		calls := append([][2]int64(nil), spy.calls...)
		spy.mu.Unlock()
		if perr != nil {
			r.Violation("intake-rejects-valid:"+j.typ, caseID, "parser rejected a valid windowed request: "+perr.Error(), nil)
		} else if len(calls) != 1 || calls[0] != [2]int64{j.w.from, wantUntil} {
			r.Violation(fmt.Sprintf("intake-window:%s:untilDefaulted=%v", j.typ, j.w.until == 0 && j.w.from != 0), caseID,
				fmt.Sprintf("%s anchorFrom=%d anchorUntil=%d delta=%d under %s: time validator received %v, want [[%d %d]]", j.typ, j.w.from, j.w.until, delta, j.v.name, calls, j.w.from, wantUntil),
				map[string]interface{}{"variant": j.v.name, "type": j.typ, "from": j.w.from, "until": j.w.until})
		}
		// metamorphic rider: only delta matters
		k := fmt.Sprintf("%s|%d|%d|%d", j.typ, j.w.from, j.w.until, delta)
		out := impl.Core() + fmt.Sprint(calls)
		mu.Lock()
		if byKey[k] == nil {
			byKey[k] = map[string]string{}
		}
		byKey[k][out] = j.v.name
		mu.Unlock()
		r.Sample(map[string]interface{}{"case": caseID, "in_window": in})
	})
	if r.Only == "" {
		for k, outs := range byKey {
			if len(outs) > 1 {
				var names []string
				for _, n := range outs {
					names = append(names, n)
				}
				r.Violation("config-dependence", "cfg|"+k, fmt.Sprintf("outcome of %s differs between configurations that agree on the time delta: %v", k, names), nil)
			}
		}
	}
	r.Extra["configurations"] = len(variants)
	r.Assumptions = append(r.Assumptions, "window predicate inWindow(from,until,T,delta) is written from the property text", "anchoring time fixed at T=1000; boundaries T-1,T,T+1 and T-delta-1..T-delta+1")
}
