package props

import (
	"fmt"
	"sort"
	"strings"

	"github.com/trustbloc/sidetree-core-go/pkg/api/operation"
	"github.com/trustbloc/sidetree-core-go/pkg/api/protocol"
	"github.com/trustbloc/sidetree-core-go/pkg/document"
	"github.com/trustbloc/sidetree-core-go/pkg/processor"
	"github.com/trustbloc/sidetree-core-go/pkg/versions/1_0/doctransformer/metadata"

	"verif/mc/fx"
	"verif/mc/hx"
)

func init() { register("C02", c02) }

type c02Shape struct {
	ops   []string // pool ids; suffix "/u" = unpublished
	grid  []Coord
	perms bool
}

func c02(r *hx.Run) {
	fx.Quiet()
	client, v := stdClient()
	delta := v.P.MaxOperationTimeDelta
	r.Rule = "for every competition shape (forks of one update/recovery commitment, several creates, deactivate vs recover, replays, published vs unpublished twins), every injective assignment of (time, number) coordinates from the grid (non-monotone numbers included) and EVERY permutation of the store's return order (and both arrival paths of unpublished operations), resolve on the real processor; all permutations must agree and equal ref/sidetree ordered by (time, number), published first; metadata operation lists must come out in that order; the resolution at the version id of the latest published operation is the same for every store order; histories of 13 and 16 operations (three- and four-way competitions, both chains, duplicate creates) on 18 structured coordinate assignments x 18-21 structured store orders (all rotations, reversal, strides, sorted ascending / descending) - long enough to leave the insertion-sort regime of the library's sort. Non-trivial: at least two operations compete for one commitment / create slot and the assignment is not already in store order."
	g9 := []Coord{}
	for t := uint64(1); t <= 3; t++ {
		for n := uint64(0); n <= 2; n++ {
			g9 = append(g9, Coord{t, n})
		}
	}
	g6 := g9[:6]
	g4 := []Coord{{1, 0}, {1, 2}, {2, 1}, {3, 0}}
	shapes := []c02Shape{
		{[]string{"C", "C~h"}, g9, true},
		{[]string{"C", "U01", "U01b"}, g9, true},
		{[]string{"C", "R01", "R01b"}, g9, true},
		{[]string{"C", "D0", "R01"}, g9, true},
		{[]string{"C", "U01", "U01"}, g9, true},
		{[]string{"C", "C~h", "U01"}, g9, true},
		{[]string{"C", "C~n", "C~h"}, g9, true},
		{[]string{"C", "U01", "U01b/u"}, g9, true},
		{[]string{"C", "U01/u", "U01b/u"}, g9, true},
		{[]string{"C", "C~h/u"}, g9, true},
		{[]string{"C/u", "C~h"}, g9, true},
		{[]string{"C/u", "C~h/u"}, g9, true},
		{[]string{"C", "D0/u", "R01"}, g9, true},
		{[]string{"C", "U01", "U01b", "U12"}, g6, true},
		{[]string{"C", "R01", "R01b", "V01"}, g6, true},
		{[]string{"C", "D0", "R01", "U01"}, g6, true},
		{[]string{"C", "C~h", "U01", "U01b"}, g6, true},
		{[]string{"C", "R01", "R01b/u", "V01/u"}, g6, true},
		{[]string{"C", "U01", "U10", "U12"}, g6, true}, // U10 re-commits to a consumed commitment: it must be skipped, not block U12
		{[]string{"C", "R01", "R10", "R12"}, g6, true},
		{[]string{"C", "D0~w", "D0"}, g9, true},             // the earlier competitor is refused by the applier (outside its window): the later one counts
		{[]string{"C", "Fa(U01)", "U01", "U01b"}, g6, true}, // a competitor with a bad signature does not end the competition
		{[]string{"C", "U01", "U01b", "U01i"}, g6, true},    // three operations compete for one commitment
		{[]string{"C", "R01", "R01b", "D0"}, g6, true},
		{[]string{"C", "U01", "U01b", "U12", "U1b2"}, g4[:4], false},
		{[]string{"C~x", "C", "U01"}, g9, true}, // a stored create that the applier refuses is skipped: the next create defines the DID
		// a refused competitor that carries the SAME next commitment as the genuine operation (a tampered copy anchored first) does not
		// use that commitment up
		{[]string{"C", "Ft0(U01)", "U01", "U01b"}, g6, true},
		{[]string{"C", "Ft0(R01)", "R01", "U01"}, g6, true},
	}
	if r.Tier == "thorough" {
		shapes = append(shapes,
			c02Shape{[]string{"C", "U01", "U01b", "U12", "U1b2"}, g6, true},
			c02Shape{[]string{"C", "R01", "R01b", "V01", "V0b1"}, g6, true},
			c02Shape{[]string{"C", "C~h", "R01", "D0", "U01"}, g6, true},
			c02Shape{[]string{"C", "U01", "U01b", "U12"}, g9, true},
			c02Shape{[]string{"C", "R01", "R01b", "V01"}, g9, true},
			c02Shape{[]string{"C", "C~h", "U01", "U01b", "R01", "R01b"}, g6, false},
			c02Shape{[]string{"C", "U01", "U01b", "U01i", "U01~p"}, g6, true}, // four-way competition
			c02Shape{[]string{"C", "R01", "R01b", "D0", "R01~a"}, g6, true},
		)
	}
	pool := fx.NewPool(fx.Ed25519, fx.SHA256, "ok")
	twoVer := hostileSecondVersion(v, 2)
	twoVerShapes := map[int]bool{1: true, 2: true, 3: true, 5: true, 13: true, 14: true}
	md := metadata.New(metadata.WithIncludePublishedOperations(true), metadata.WithIncludeUnpublishedOperations(true))
	for si, sh := range shapes {
		if r.OverBudget() {
			break
		}
		n := len(sh.ops)
		// all injective coordinate assignments
		var assigns [][]int
		var rec func(cur []int, used map[int]bool)
		rec = func(cur []int, used map[int]bool) {
			if len(cur) == n {
				assigns = append(assigns, append([]int(nil), cur...))
				return
			}
			for i := range sh.grid {
				if used[i] {
					continue
				}
				used[i] = true
				rec(append(cur, i), used)
				used[i] = false
			}
		}
		rec(nil, map[int]bool{})
		// identical requests placed at swapped coordinates are the same set: dedupe by key
		seen := map[string]bool{}
		var uniq [][]int
		for _, a := range assigns {
			var pl []fx.Placed
			for i, id := range sh.ops {
				pl = append(pl, c02Place(pool, id, sh.grid[a[i]]))
			}
			k := HistKey(pl)
			if !seen[k] {
				seen[k] = true
				uniq = append(uniq, a)
			}
		}
		hx.ParallelFor(len(uniq), func(ai int) {
			a := uniq[ai]
			placed := make([]fx.Placed, n)
			for i, id := range sh.ops {
				placed[i] = c02Place(pool, id, sh.grid[a[i]])
			}
			st, merr := ResolveModel(placed, nil, delta)
			model := ProjectModel(st, merr)
			r.State()
			key := fmt.Sprintf("shape%d|%s", si, HistKey(placed))
			r.Outcome(fmt.Sprintf("shape%d:%s", si, model.Abstract()))
			// the latest published operation: a resolution at its version id sees every published operation, in any store order
			var latest *fx.Placed
			for i := range placed {
				if placed[i].Published && (latest == nil || placed[i].Time > latest.Time || (placed[i].Time == latest.Time && placed[i].Num > latest.Num)) {
					latest = &placed[i]
				}
			}
			var vidFirst *Result
			check := func(order []int, mode int) {
				caseID := fmt.Sprintf("%s|perm=%v|mode=%d", key, order, mode)
				if !r.Want(caseID) {
					return
				}
				ordered := make([]fx.Placed, n)
				for i, o := range order {
					ordered[i] = placed[o]
				}
				if mode == 0 && latest != nil && (len(order) < 4 || order[0]%2 == 0) {
					rmV, errV := ResolveImpl(client, pool.Suffix, ordered, document.WithVersionID(latest.Ref()))
					gotV := ProjectImpl(rmV, errV)
					r.Eval()
					if vidFirst == nil {
						vidFirst = &gotV
					} else if gotV != *vidFirst {
						r.Violation(fmt.Sprintf("order-dependence:version-id:shape=%s:%s", strings.Join(sh.ops, "+"), diffFields(gotV, *vidFirst)), caseID+"|versionId",
							fmt.Sprintf("operations %v resolved at the version id of the latest published operation (%s) depend on the store order %v\n  this order : %s\n  first order: %s", placedDesc(placed), latest.Ref(), order, gotV, *vidFirst), nil)
					}
				}
				rm, err := c02Resolve(client, pool.Suffix, ordered, mode)
				got := ProjectImpl(rm, err)
				r.Eval()
				r.Trans(1)
				r.Trace(1)
				if mode == 0 && twoVerShapes[si] && order[0] == 0 {
					// the same history while a later protocol version (under which none of these operations would be valid) is in
					// force from time 2 on: the operations carry version 0 and must be ordered and applied exactly as before
					rm2, err2 := c02Resolve(twoVer, pool.Suffix, ordered, 0)
					r.Eval()
					if got2 := ProjectImpl(rm2, err2); got2 != got {
						r.Violation(fmt.Sprintf("version-at-anchoring-time:shape=%s:%s", strings.Join(sh.ops, "+"), diffFields(got2, got)), caseID+"|2ver",
							fmt.Sprintf("operations %v (all batched under protocol version 0) resolve differently when a second protocol version is in force from time 2\n  one version : %s\n  two versions: %s", placedDesc(placed), got, got2), nil)
					}
				}
				if mode == 0 && (order[0] == 0 || order[0] == n-1) {
					// source independence: each published operation in turn reaches the processor through WithAdditionalOperations
					// instead of the store (the observer may not have stored it yet); the set of anchored operations is the same
					for k := 0; k < n; k++ {
						if !ordered[k].Published {
							continue
						}
						rmA, errA := c02ResolveMoved(client, pool.Suffix, ordered, k)
						r.Eval()
						if gotA := ProjectImpl(rmA, errA); gotA != got {
							r.Violation(fmt.Sprintf("source-dependence:shape=%s:%s", strings.Join(sh.ops, "+"), diffFields(gotA, got)), fmt.Sprintf("%s|moved=%d", caseID, k),
								fmt.Sprintf("operations %v (store order %v): the result changes when operation %d is passed through WithAdditionalOperations instead of the store\n  all stored: %s\n  one moved : %s", placedDesc(placed), order, k, got, gotA), nil)
							break
						}
					}
				}
				if got != model {
					r.Violation(fmt.Sprintf("order-dependence:shape=%s:%s", strings.Join(sh.ops, "+"), diffFields(got, model)), caseID,
						fmt.Sprintf("operations %v returned by the store in order %v (mode %d)\n  impl : %s\n  model: %s", placedDesc(placed), order, mode, got, model),
						map[string]interface{}{"placed": placedDesc(placed), "order": order, "mode": mode})
					return
				}
				if err == nil {
					info := protocol.TransformationInfo{document.PublishedProperty: true, document.IDProperty: "did:sidetree:x"}
					m, merr := md.CreateDocumentMetadata(rm, info)
					if merr != nil {
						r.Violation("metadata-error", caseID, merr.Error(), nil)
						return
					}
					method, _ := m[document.MethodProperty].(document.Metadata)
					if pubs, ok := method[document.PublishedOperationsProperty].([]*metadata.PublishedOperation); ok {
						for i := 1; i < len(pubs); i++ {
							p, q := pubs[i-1], pubs[i]
							if p.TransactionTime > q.TransactionTime || (p.TransactionTime == q.TransactionTime && p.TransactionNumber >= q.TransactionNumber) {
								r.Violation("metadata-published-order", caseID,
									fmt.Sprintf("publishedOperations not in (time, number) order for %v store order %v: %d.%d before %d.%d", placedDesc(placed), order,
										p.TransactionTime, p.TransactionNumber, q.TransactionTime, q.TransactionNumber), nil)
								break
							}
						}
						npub := 0
						for _, pl := range placed {
							if pl.Published {
								npub++
							}
						}
						if len(pubs) != npub {
							r.Violation("metadata-published-count", caseID, fmt.Sprintf("publishedOperations has %d entries, want %d", len(pubs), npub), nil)
						}
					}
					if unp, ok := method[document.UnpublishedOperationsProperty].([]*metadata.UnpublishedOperation); ok {
						for i := 1; i < len(unp); i++ {
							if unp[i-1].TransactionTime > unp[i].TransactionTime {
								r.Violation("metadata-unpublished-order", caseID, "unpublishedOperations not in time order", nil)
								break
							}
						}
					}
				}
			}
			nontriv := false
			inOrder := true
			for i := 1; i < n; i++ {
				if placed[i-1].Time > placed[i].Time || (placed[i-1].Time == placed[i].Time && placed[i-1].Num > placed[i].Num) {
					inOrder = false
				}
			}
			if !inOrder {
				nontriv = true
			}
			if nontriv {
				r.Nontrivial(key)
			}
			hasUnpub := false
			for _, pl := range placed {
				if !pl.Published {
					hasUnpub = true
				}
			}
			if sh.perms {
				perms(n, func(p []int) {
					check(p, 0)
					if hasUnpub {
						check(p, 1)
					}
				})
			} else {
				id := make([]int, n)
				rev := make([]int, n)
				for i := range id {
					id[i], rev[i] = i, n-1-i
				}
				check(id, 0)
				check(rev, 0)
				rot := append(append([]int{}, id[n/2:]...), id[:n/2]...)
				check(rot, 0)
			}
			r.Sample(map[string]interface{}{"placed": placedDesc(placed), "winner": model.Abstract()})
		})
	}
	// ---- long histories (13 and 16 operations: beyond the size below which the library's sort is an insertion sort), structured
	// coordinate assignments x structured store orders (rotations, reversal, strides)
	longOps := []string{"C", "C~h", "U01", "U01b", "U01i", "U12", "U1b2", "U23", "R01", "R01b", "D1", "V01", "W01", "U01~p", "R01~a", "D0"}
	var g18 []Coord
	for t := uint64(1); t <= 6; t++ {
		for n := uint64(0); n <= 2; n++ {
			g18 = append(g18, Coord{t, n})
		}
	}
	type longJob struct {
		n, stride, offset int
	}
	var longJobs []longJob
	for _, n := range []int{13, 16} {
		for _, stride := range []int{1, 5, 7, 11, 13, 17} { // coprime with 18: injective walks over the grid
			for _, offset := range []int{0, 4, 9} {
				longJobs = append(longJobs, longJob{n, stride, offset})
			}
		}
	}
	hx.ParallelFor(len(longJobs), func(ji int) {
		j := longJobs[ji]
		placed := make([]fx.Placed, j.n)
		for i := 0; i < j.n; i++ {
			placed[i] = c02Place(pool, longOps[i], g18[(j.offset+i*j.stride)%18])
		}
		st, merr := ResolveModel(placed, nil, delta)
		model := ProjectModel(st, merr)
		r.State()
		key := fmt.Sprintf("long|n=%d|stride=%d|offset=%d", j.n, j.stride, j.offset)
		r.Nontrivial(key)
		r.Outcome("long:" + model.Abstract())
		var orders [][]int
		for rot := 0; rot < j.n; rot++ {
			o := make([]int, j.n)
			for i := range o {
				o[i] = (i + rot) % j.n
			}
			orders = append(orders, o)
		}
		rev := make([]int, j.n)
		for i := range rev {
			rev[i] = j.n - 1 - i
		}
		orders = append(orders, rev)
		for _, st := range []int{3, 5, 7} { // coprime with 13 and 16
			o := make([]int, j.n)
			for i := range o {
				o[i] = (i * st) % j.n
			}
			orders = append(orders, o)
		}
		// sorted by (time, number) ascending and descending
		asc := make([]int, j.n)
		for i := range asc {
			asc[i] = i
		}
		sort.Slice(asc, func(a, b int) bool {
			pa, pb := placed[asc[a]], placed[asc[b]]
			return pa.Time < pb.Time || (pa.Time == pb.Time && pa.Num < pb.Num)
		})
		desc := make([]int, j.n)
		for i := range desc {
			desc[i] = asc[j.n-1-i]
		}
		orders = append(orders, asc, desc)
		for oi, order := range orders {
			caseID := fmt.Sprintf("%s|order=%d", key, oi)
			if !r.Want(caseID) {
				continue
			}
			ordered := make([]fx.Placed, j.n)
			for i, o := range order {
				ordered[i] = placed[o]
			}
			rm, err := c02Resolve(client, pool.Suffix, ordered, 0)
			got := ProjectImpl(rm, err)
			r.Eval()
			r.Trans(1)
			r.Trace(1)
			if got != model {
				r.Violation("order-dependence:long-history:"+diffFields(got, model), caseID,
					fmt.Sprintf("operations %v returned by the store in order %v\n  impl : %s\n  model: %s", placedDesc(placed), order, got, model),
					map[string]interface{}{"placed": placedDesc(placed), "order": order})
			}
		}
	})
	r.Assumptions = append(r.Assumptions,
		"coordinates of distinct operations are distinct (time, number) pairs as the statement presupposes; unpublished operations carry harness-chosen times",
		"mode 1 delivers unpublished operations (and a duplicate of one published operation) through WithAdditionalOperations instead of the unpublished store")
}

func c02Place(pool *fx.Pool, id string, c Coord) fx.Placed {
	pub := true
	if strings.HasSuffix(id, "/u") {
		pub = false
		id = strings.TrimSuffix(id, "/u")
	}
	return fx.Placed{Op: pool.Get(id), Time: c.T, Num: c.N, Published: pub}
}

// c02ResolveMoved resolves with the k-th operation delivered through WithAdditionalOperations and all others through the stores.
func c02ResolveMoved(client protocol.Client, suffix string, placed []fx.Placed, k int) (*protocol.ResolutionModel, error) {
	var pub fx.SliceStore
	var unpub unpubStore
	var add []*operation.AnchoredOperation
	for i, pl := range placed {
		ao := pl.Anchored(suffix)
		switch {
		case i == k:
			add = append(add, ao)
		case pl.Published:
			pub = append(pub, ao)
		default:
			unpub = append(unpub, ao)
		}
	}
	var popts []processor.Option
	if len(unpub) > 0 {
		popts = append(popts, processor.WithUnpublishedOperationStore(unpub))
	}
	p := processor.New("verif", pub, client, popts...)
	return p.Resolve(suffix, document.WithAdditionalOperations(add))
}

func c02Resolve(client protocol.Client, suffix string, placed []fx.Placed, mode int) (*protocol.ResolutionModel, error) {
	if mode == 0 {
		return ResolveImpl(client, suffix, placed)
	}
	var pub fx.SliceStore
	var add []*operation.AnchoredOperation
	for _, pl := range placed {
		ao := pl.Anchored(suffix)
		if pl.Published {
			pub = append(pub, ao)
			if len(add) == 0 {
				add = append(add, pl.Anchored(suffix)) // duplicate of a published operation: must be ignored
			}
		} else {
			add = append(add, ao)
		}
	}
	p := processor.New("verif", pub, client)
	return p.Resolve(suffix, document.WithAdditionalOperations(add))
}
