package props

import (
	"bytes"
	"fmt"
	"math"
	"strings"

	"github.com/trustbloc/sidetree-core-go/pkg/canonicalizer"
	"github.com/trustbloc/sidetree-core-go/pkg/verifhooks"

	"verif/mc/hx"
	"verif/mc/ref/jcs"
)

func init() { register("C07", c07) }

// string atoms as Go strings (valid UTF-8)
var c07Strings = []string{"", "a", "b", "aa", "A", "1", "/", "\"", "\\", "\n", "\x00", "\x1f", "\x7f", "é", "€", "\ufb33", "\U0001F600", "\ufffd", "\u2028", "\b", "\f", "\r", "\t", "<", "\u0080"}

var c07Numbers = []string{"0", "-0", "1", "-1", "0.1", "1e21", "999999999999999900000", "1e-6", "1e-7", "123456789012345680000", "5e-324",
	"2.2250738585072014e-308", "1.7976931348623157e308", "9007199254740993", "4.35", "0.000001234", "1.5", "100", "1e2", "0.5e1", "333333333.33333329", "1E30", "4.50", "2e-3", "0.000001", "1e+21", "295147905179352830000"}

// spellings returns every escape spelling of one character inside a JSON string.
func charSpellings(r rune) []string {
	var out []string
	raw := string(r)
	if r >= 0x20 && r != '"' && r != '\\' {
		out = append(out, raw)
	}
	if r < 0x10000 {
		out = append(out, fmt.Sprintf("\\u%04x", r), fmt.Sprintf("\\u%04X", r))
	} else {
		x := r - 0x10000
		hi, lo := 0xD800+(x>>10), 0xDC00+(x&0x3ff)
		out = append(out, fmt.Sprintf("\\u%04x\\u%04x", hi, lo), fmt.Sprintf("\\u%04X\\u%04x", hi, lo))
	}
	switch r {
	case '"':
		out = append(out, `\"`)
	case '\\':
		out = append(out, `\\`)
	case '/':
		out = append(out, `\/`)
	case '\b':
		out = append(out, `\b`)
	case '\f':
		out = append(out, `\f`)
	case '\n':
		out = append(out, `\n`)
	case '\r':
		out = append(out, `\r`)
	case '\t':
		out = append(out, `\t`)
	}
	return out
}

// strSpellings returns every spelling of the string (product over characters, capped per string by maxN using
// a mixed-radix walk that still covers every spelling of every character at least once when capped).
func strSpellings(s string, maxN int) []string {
	rs := []rune(s)
	if len(rs) == 0 {
		return []string{`""`}
	}
	opts := make([][]string, len(rs))
	total := 1
	for i, r := range rs {
		opts[i] = charSpellings(r)
		total *= len(opts[i])
	}
	var out []string
	if total <= maxN {
		idx := make([]int, len(rs))
		for {
			var sb strings.Builder
			sb.WriteByte('"')
			for i := range rs {
				sb.WriteString(opts[i][idx[i]])
			}
			sb.WriteByte('"')
			out = append(out, sb.String())
			k := len(rs) - 1
			for k >= 0 {
				idx[k]++
				if idx[k] < len(opts[k]) {
					break
				}
				idx[k] = 0
				k--
			}
			if k < 0 {
				break
			}
		}
		return out
	}
	mx := 0
	for _, o := range opts {
		if len(o) > mx {
			mx = len(o)
		}
	}
	for j := 0; j < mx; j++ {
		var sb strings.Builder
		sb.WriteByte('"')
		for i := range rs {
			sb.WriteString(opts[i][j%len(opts[i])])
		}
		sb.WriteByte('"')
		out = append(out, sb.String())
	}
	return out
}

func c07Doc(r *hx.Run, family string, doc []byte) {
	caseID := family + "|" + fmt.Sprintf("%q", doc)
	if !r.Want(caseID) {
		return
	}
	got, gerr := canonicalizer.MarshalCanonical(doc)
	want, werr := jcs.CanonicalBytes(doc)
	r.Eval()
	r.Trans(1)
	r.Trace(1)
	if werr != nil {
		r.Outcome(family + ":rejected")
		if gerr == nil {
			r.Violation("accepts-invalid:"+c07Reason(werr), caseID, fmt.Sprintf("input %q is not acceptable (%v) but canonicalization returned %q", doc, werr, got), map[string]interface{}{"input": string(doc)})
		} else {
			r.Nontrivial("rej|" + string(doc))
		}
		return
	}
	if len(want) > 0 && want[0] != '{' && want[0] != '[' {
		r.Outcome(family + ":top-level-scalar-not-asserted")
		return // the statement covers objects and arrays only
	}
	r.Outcome(family + ":accepted")
	r.Nontrivial(string(want))
	if gerr != nil {
		r.Violation("rejects-valid:"+family, caseID, fmt.Sprintf("well-formed input %q rejected: %v", doc, gerr), map[string]interface{}{"input": string(doc)})
		return
	}
	if !bytes.Equal(got, want) {
		r.Violation("wrong-canonical-form:"+family, caseID, fmt.Sprintf("input %q\n  impl: %q\n  ref : %q", doc, got, want), map[string]interface{}{"input": string(doc)})
		return
	}
	// an unrelated canonicalization in between must not disturb a result already returned (no shared scratch state), nor the input
	inCopy := append([]byte(nil), doc...)
	_, _ = canonicalizer.MarshalCanonical([]byte(`{"zz":[1e21,"\u20ac\ud83d\ude00"],"a":{"b":null}}`))
	if !bytes.Equal(got, want) || !bytes.Equal(doc, inCopy) {
		r.Violation("result-or-input-disturbed:"+family, caseID, fmt.Sprintf("after canonicalizing another document the earlier result reads %q (was %q), the input %q", got, want, doc), nil)
		return
	}
	again, aerr := canonicalizer.MarshalCanonical(got)
	if aerr != nil || !bytes.Equal(again, got) {
		r.Violation("not-a-fixed-point:"+family, caseID, fmt.Sprintf("canonical output %q re-canonicalizes to %q (%v)", got, again, aerr), nil)
	}
	back, perr := jcs.Parse(got)
	orig, _ := jcs.Parse(doc)
	if perr != nil || !jcs.Equal(back, orig) {
		r.Violation("output-value-differs:"+family, caseID, fmt.Sprintf("output %q does not parse to the input value of %q", got, doc), nil)
	}
}

func c07Reason(err error) string {
	s := err.Error()
	for _, k := range []string{"duplicate", "lone high", "lone low", "invalid escape", "control", "trailing", "unterminated", "UTF-8", "\\u", "unexpected end", "bad number", "bad fraction", "bad exponent", "bad literal"} {
		if strings.Contains(s, k) {
			return k
		}
	}
	return "other"
}

func c07(r *hx.Run) {
	r.Rule = "bounded-exhaustive families of JSON texts, each compared byte for byte with the independent RFC 8785 reference (ref/jcs): (1) objects with every <=3-subset of 25 tricky keys in every member order; (2) every escape spelling of every string atom and of every ordered pair of atoms, as value and as key; (3) number spellings, incl. every token of the number grammar over 4 integer parts x 6 fractions x 12 exponents x sign; (4) all trees of depth<=3 width<=2; (5) whitespace at every structural position; (6) rejection families: every proper prefix, duplicate names incl. escape-equivalent spellings, all 256 two-character escapes, malformed \\u, all lone-surrogate shapes, raw control bytes, trailing bytes; (7) ES6 number formatting on doubles enumerated by bit pattern and on decimal literals. Non-trivial: distinct canonical outputs / distinct rejected inputs."
	var docs [][2]string // family, doc
	add := func(f, d string) { docs = append(docs, [2]string{f, d}) }

	// (1) key ordering
	keys := c07Strings
	enc := func(s string) string { return strSpellings(s, 1)[0] }
	for k := 1; k <= 3; k++ {
		combos(len(keys), k, func(idx []int) {
			perms(k, func(p []int) {
				var sb strings.Builder
				sb.WriteByte('{')
				for i, pi := range p {
					if i > 0 {
						sb.WriteByte(',')
					}
					sb.WriteString(enc(keys[idx[pi]]))
					sb.WriteString(":")
					sb.WriteString(fmt.Sprint(idx[pi]))
				}
				sb.WriteByte('}')
				add("keyorder", sb.String())
			})
		})
	}
	// (2) escape spellings
	for _, s := range c07Strings {
		for _, sp := range strSpellings(s, 1<<20) {
			add("escape-value", "["+sp+"]")
			add("escape-key", "{"+sp+":"+sp+"}")
		}
		for _, t := range c07Strings {
			for _, sp := range strSpellings(s+t, 40) {
				add("escape-pair", "["+sp+"]")
				add("escape-pair-key", "{"+sp+":0,\"zz\":1}")
			}
		}
	}
	// (3) numbers
	for _, n := range c07Numbers {
		add("number", "["+n+"]")
		add("number", "{\"n\":"+n+"}")
		for _, m := range c07Numbers {
			add("number-pair", "["+n+","+m+"]")
		}
	}
	for _, sp := range []string{"1", "1.0", "1e0", "10e-1", "1E+0", "100e-2", "0.1e1", "1.000", "1e00", "1E-0"} {
		add("number-spelling", "["+sp+"]")
	}
	// every token of the RFC 8259 number grammar [minus] int [frac] [exp] over small parts (a zero integer part directly followed
	// by an exponent, leading zeros inside the exponent, signed zero exponents, ...)
	for _, sign := range []string{"", "-"} {
		for _, ip := range []string{"0", "1", "10", "12"} {
			for _, fp := range []string{"", ".0", ".5", ".00", ".50", ".05"} {
				for _, ep := range []string{"", "e0", "E0", "e+0", "e-0", "e1", "E+1", "e-1", "e00", "e01", "e10", "E-10"} {
					add("number-grammar", "["+sign+ip+fp+ep+"]")
				}
			}
		}
	}
	// (4) trees
	leaves := []string{"1", "\"é\"", "null", "true", "1e21"}
	var trees func(depth int) []string
	trees = func(depth int) []string {
		out := append([]string{}, leaves...)
		if depth == 0 {
			return out
		}
		sub := trees(depth - 1)
		out = append(out, "[]", "{}")
		for _, a := range sub {
			out = append(out, "["+a+"]", "{\"b\":"+a+"}")
		}
		if depth <= 2 {
			for _, a := range sub {
				for _, b := range sub {
					out = append(out, "["+a+","+b+"]", "{\"b\":"+a+",\"a\":"+b+"}")
				}
			}
		}
		return out
	}
	tdepth := 2
	if r.Tier == "thorough" {
		tdepth = 3
	}
	for _, t := range trees(tdepth) {
		if strings.HasPrefix(t, "[") || strings.HasPrefix(t, "{") {
			add("tree", t)
		}
	}
	// (5) whitespace at every structural position of representative documents
	reps := []string{`{"a":1,"b":[true,null,{"c":"x y"}],"":{}}`, `[1,[2,[3]],{"k":"v"},"s",-0.5e1]`, `{}`, `[]`, `[[]]`, `{"a":{}}`}
	for _, d := range reps {
		toks := c07Tokens(d)
		for pos := 0; pos <= len(toks); pos++ {
			for _, ws := range []string{" ", "\n", "\r", "\t", " \n\t\r "} {
				add("whitespace", strings.Join(toks[:pos], "")+ws+strings.Join(toks[pos:], ""))
			}
		}
		var sb strings.Builder
		for _, t := range toks {
			sb.WriteString(" " + t + "\n")
		}
		add("whitespace", sb.String())
	}
	// (6) rejection families
	valid := []string{`{"a":1,"b":[true,null,{"c":"x\u00e9"}]}`, `[1,"s",{"k":[]}]`, `{"\ud83d\ude00":"\n"}`, `[1.5e3,false]`}
	for _, d := range valid {
		for i := 0; i < len(d); i++ {
			add("prefix", d[:i])
		}
		for b := 0; b < 128; b++ {
			add("trailing", d+string(rune(b)))
			add("trailing", d+" "+string(rune(b)))
		}
	}
	for _, pair := range [][2]string{{`"a"`, `"a"`}, {`"a"`, `"\u0061"`}, {`"\u00e9"`, `"é"`}, {`""`, `""`}, {`"\n"`, `"\u000a"`}, {`"\ud83d\ude00"`, `"😀"`}, {`"/"`, `"\/"`}} {
		add("duplicate", "{"+pair[0]+":1,"+pair[1]+":2}")
		add("duplicate", "{"+pair[0]+":1,\"m\":0,"+pair[1]+":2}")
		add("duplicate", "{\"m\":0,"+pair[0]+":1,"+pair[1]+":2}")
		add("duplicate", "[{"+pair[1]+":{},"+pair[0]+":[]}]")
		add("duplicate", "{\"x\":{"+pair[0]+":1,"+pair[1]+":2}}")
	}
	for b := 0; b < 256; b++ {
		if b >= 0x80 {
			continue // not well-formed UTF-8 after the backslash: outside the statement
		}
		add("escape2", "[\"\\"+string(rune(b))+"\"]")
		add("escape2", "{\"\\"+string(rune(b))+"\":0}")
	}
	for _, u := range []string{`\u`, `\u0`, `\u00`, `\u004`, `\u00g0`, `\u+041`, `\u-041`, `\u 041`, `\U0041`, `\u00_1`, `\u0x41`, `\uD800`, `\udc00`} {
		add("bad-u", "[\""+u+"\"]")
		add("bad-u", "[\""+u+"x\"]")
		add("bad-u", "{\""+u+"\":0}")
	}
	for _, su := range []string{`\ud800`, `\udc00`, `\ud800\u0041`, `\udc00\ud800`, `\ud800\ud800`, `\ud800A`, `A\ud800`, `\udbff`, `\udfff`, `\ud800\n`, `\ud83d\ude00\ude00`, `\ud83d\ud83d\ude00`} {
		add("surrogate", "[\""+su+"\"]")
		add("surrogate", "{\""+su+"\":0}")
		add("surrogate", "{\"k\":\"x"+su+"y\"}")
	}
	for b := 0; b < 0x20; b++ {
		add("control", "[\"a"+string(rune(b))+"b\"]")
		add("control", "{\"a"+string(rune(b))+"b\":0}")
	}
	for _, d := range []string{``, ` `, `1`, `"a"`, `null`, `true`, `[1,]`, `[,1]`, `{"a":1,}`, `{,}`, `{"a"}`, `{"a":}`, `{:1}`, `[1 2]`, `{"a":1 "b":2}`, `[1,,2]`, `{"a"::1}`,
		`[tru]`, `[nul]`, `[True]`, `[-]`, `[1e]`, `[1e+]`, `[--1]`, `['a']`, `{a:1}`, `[1]]`, `{}}`, `[}`, `{]`, `[1e400]`, `[-1e400]`, `{"a":1}{"b":2}`, `[] []`} {
		add("malformed", d)
	}
	r.Extra["documents"] = len(docs)
	hx.ParallelFor(len(docs), func(i int) {
		c07Doc(r, docs[i][0], []byte(docs[i][1]))
	})
	r.States = int64(len(docs))
	for i := 0; i < len(docs) && i < 4000; i += 997 {
		r.Sample(docs[i][1])
	}

	// (7) numbers by bit pattern
	c07Numbers2(r)
	r.Assumptions = append(r.Assumptions,
		"inputs that are not well-formed UTF-8 and number tokens outside the RFC 8259 grammar (+1, .5, 0x10, Infinity) are outside the statement and not asserted",
		"ref/jcs parses numbers with strconv.ParseFloat (shared trusted base) but formats them with its own math/big implementation of Number::toString",
		"random generation beyond the bound (named in the quantifier) is outside this technique")
}

func c07Tokens(d string) []string {
	var toks []string
	i := 0
	for i < len(d) {
		c := d[i]
		switch {
		case strings.ContainsRune("{}[],:", rune(c)):
			toks = append(toks, string(c))
			i++
		case c == '"':
			j := i + 1
			for d[j] != '"' {
				if d[j] == '\\' {
					j++
				}
				j++
			}
			toks = append(toks, d[i:j+1])
			i = j + 1
		default:
			j := i
			for j < len(d) && !strings.ContainsRune("{}[],:\"", rune(d[j])) {
				j++
			}
			toks = append(toks, d[i:j])
			i = j
		}
	}
	return toks
}

func c07Numbers2(r *hx.Run) {
	// mantissa patterns with <=2 bits set or <=2 bits clear
	var mants []uint64
	const full = (uint64(1) << 52) - 1
	mants = append(mants, 0, full)
	for i := 0; i < 52; i++ {
		mants = append(mants, 1<<uint(i), full&^(1<<uint(i)))
		for j := i + 1; j < 52; j++ {
			mants = append(mants, 1<<uint(i)|1<<uint(j), full&^(1<<uint(i)|1<<uint(j)))
		}
	}
	step := 8
	mstep := 3
	if r.Tier == "thorough" {
		step, mstep = 1, 1
	}
	var exps []int
	for e := 0; e <= 2046; e += step {
		exps = append(exps, e)
	}
	// always include the boundary exponents around 1e-7..1e21 and the denormal / max edges
	for _, e := range []int{0, 1, 2, 999, 1000, 1001, 1023 - 24, 1023 - 20, 1023 - 19, 1023, 1023 + 52, 1023 + 53, 1023 + 69, 1023 + 70, 2045, 2046} {
		exps = append(exps, e)
	}
	var count int64
	hx.ParallelFor(len(exps), func(ei int) {
		if r.OverBudget() {
			return
		}
		e := exps[ei]
		for mi := 0; mi < len(mants); mi += mstep {
			m := mants[mi]
			bits := uint64(e)<<52 | m
			for _, sign := range []uint64{0, 1 << 63} {
				f := math.Float64frombits(bits | sign)
				c07OneNumber(r, f)
			}
		}
	})
	// integers around powers of ten, and ties
	for k := 0; k <= 22; k++ {
		p := math.Pow(10, float64(k))
		for d := -50; d <= 50; d++ {
			c07OneNumber(r, p+float64(d))
			if k <= 6 {
				c07OneNumber(r, (p+float64(d))/1e9)
			}
		}
	}
	// decimal literals through the document path
	var lits []string
	estep := 1
	if r.Tier == "quick" {
		estep = 9
	}
	for a := 1; a <= 9; a++ {
		for b := 0; b <= 99; b += 1 {
			for x := -330; x <= 310; x += estep {
				lits = append(lits, fmt.Sprintf("%d.%02de%d", a, b, x))
			}
		}
	}
	hx.ParallelFor(len(lits), func(i int) {
		if r.OverBudget() {
			return
		}
		c07Doc(r, "decimal-literal", []byte("["+lits[i]+"]"))
	})
	_ = count
	r.Extra["exponents"] = len(exps)
	r.Extra["mantissa_patterns"] = len(mants) / mstep
	r.Extra["decimal_literals"] = len(lits)
}

func c07OneNumber(r *hx.Run, f float64) {
	caseID := fmt.Sprintf("num|%016x", math.Float64bits(f))
	if !r.Want(caseID) {
		return
	}
	got, gerr := verifhooks.NumberToJSON(f)
	want, werr := jcs.NumberToString(f)
	r.Eval()
	r.Trans(1)
	if werr != nil || gerr != nil {
		if (werr == nil) != (gerr == nil) {
			r.Violation("number-error-mismatch", caseID, fmt.Sprintf("double %x: impl err=%v ref err=%v", math.Float64bits(f), gerr, werr), nil)
		}
		return
	}
	r.Nontrivial(want)
	if got != want {
		r.Violation("number-format", caseID, fmt.Sprintf("double bits %016x: impl %q, ECMAScript Number::toString %q", math.Float64bits(f), got, want), map[string]interface{}{"bits": fmt.Sprintf("%016x", math.Float64bits(f))})
	}
}
