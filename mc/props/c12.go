package props

import (
	"fmt"

	"github.com/trustbloc/sidetree-core-go/pkg/api/operation"
	"github.com/trustbloc/sidetree-core-go/pkg/commitment"
	"github.com/trustbloc/sidetree-core-go/pkg/versions/1_0/client"

	"verif/mc/fx"
	"verif/mc/hx"
	"verif/mc/ref/sidetree"
)

func init() { register("C12", c12) }

func c12(r *hx.Run) {
	fx.Quiet()
	protoClient, v := stdClient()
	delta := v.P.MaxOperationTimeDelta
	r.Rule = "intake: every pairing (revealed key k_i, next commitment = commitment of k_j under SHA2-256 or SHA2-512, reveal value under either algorithm) for update and recover, and every pairing (update commitment, recovery commitment) for create and recover, for all five key types (also with two different nonces in the revealed and in the committed key, on one parser instance), parsed by the real parser: accepted iff the next commitment is not the commitment of the revealed key / the two commitments differ; the same pairings through the client request builders (update, recover, create): a forbidden pairing is not built (or at least never both built and accepted), a permitted one is built. Resolution: every history made of a forward commitment chain of length <=4 (update chain and recovery chain) plus 1 or 2 commitment-closing operations (self loops and cycles of length 2..4; closing recovers also without their delta member; every single closing operation also as an unpublished operation) anchored at every position, with and without the legitimate continuation, on the real processor vs ref/sidetree (which never revisits a commitment). Non-trivial: pairings with i=j, histories where a closing operation is a candidate for the commitment in force."
	// ---------- intake
	for _, kt := range fx.KeyTypes {
		keys := []*fx.Key{fx.NewKey(kt, "c12/k0"), fx.NewKey(kt, "c12/k1"), fx.NewKey(kt, "c12/k2")}
		codes := []uint{fx.SHA256, fx.SHA512}
		patches := []interface{}{fx.AddServicePatch("s1", "https://example.com/s1")}
		for _, typ := range []string{"update", "recover"} {
			for i := range keys {
				for j := range keys {
					for _, rc := range codes {
						for _, nc := range codes {
							caseID := fmt.Sprintf("intake|%s|%s|i=%d|j=%d|rc=%d|nc=%d", kt, typ, i, j, rc, nc)
							if !r.Want(caseID) {
								continue
							}
							next := fx.Commit(keys[j], nc)
							s := &fx.OpSpec{Type: typ, Suffix: "EiSuffix", SignKey: keys[i], Code: rc, Patches: patches}
							other := fx.Commit(fx.NewKey(kt, "c12/other"), nc)
							if typ == "update" {
								s.NextUpdate = next
							} else {
								s.NextRecov, s.NextUpdate = next, other
							}
							_, err := v.Parser.Parse("did:sidetree", s.Build())
							r.Eval()
							r.State()
							r.Trans(1)
							r.Trace(1)
							if i == j {
								r.Nontrivial(caseID)
							}
							r.Outcome(fmt.Sprintf("intake %s same-key=%v accepted=%v", typ, i == j, err == nil))
							if (err == nil) != (i != j) {
								r.Violation(fmt.Sprintf("intake-recommit:%s:samekey=%v:revealAlg=%d:nextAlg=%d", typ, i == j, rc, nc), caseID,
									fmt.Sprintf("%s (%s) revealing key %d with next commitment of key %d (reveal alg %d, commitment alg %d): accepted=%v err=%v", typ, kt, i, j, rc, nc, err == nil, err), nil)
							}
							r.Sample(caseID)
						}
					}
				}
			}
		}
		// the same with nonces in the signing keys (one parser instance sees one key under several nonces): the revealed key is the
		// pair (key material, nonce); re-committing to it is forbidden, committing to the same material under another nonce is not
		n1, n2 := fx.B64([]byte("nonce-1-16-bytes")), fx.B64([]byte("nonce-2-16-bytes"))
		for _, typ := range []string{"update", "recover"} {
			for i := range keys[:2] {
				for j := range keys[:2] {
					for ai, na := range []string{n1, n2} {
						for bi, nb := range []string{n1, n2} {
							caseID := fmt.Sprintf("intake-nonce|%s|%s|i=%d|j=%d|a=%d|b=%d", kt, typ, i, j, ai, bi)
							if !r.Want(caseID) {
								continue
							}
							next := fx.CommitN(keys[j], fx.SHA256, nb)
							s := &fx.OpSpec{Type: typ, Suffix: "EiSuffix", SignKey: keys[i], Nonce: na, Code: fx.SHA256, Patches: patches}
							if typ == "update" {
								s.NextUpdate = next
							} else {
								s.NextRecov, s.NextUpdate = next, fx.Commit(fx.NewKey(kt, "c12/other"), fx.SHA256)
							}
							_, err := v.Parser.Parse("did:sidetree", s.Build())
							r.Eval()
							r.State()
							r.Trans(1)
							same := i == j && ai == bi
							if same {
								r.Nontrivial(caseID)
							}
							r.Outcome(fmt.Sprintf("intake %s with nonce same-key=%v accepted=%v", typ, same, err == nil))
							if (err == nil) != !same {
								r.Violation(fmt.Sprintf("intake-recommit:nonce:%s:samekey=%v", typ, same), caseID,
									fmt.Sprintf("%s (%s) revealing key %d / nonce %d with next commitment of key %d / nonce %d: accepted=%v err=%v", typ, kt, i, ai, j, bi, err == nil, err), nil)
							}
						}
					}
				}
			}
		}
		// create / recover: update commitment vs recovery commitment
		for i := range keys {
			for j := range keys {
				for _, code := range codes {
					caseID := fmt.Sprintf("intake|%s|create|i=%d|j=%d|c=%d", kt, i, j, code)
					if r.Want(caseID) {
						req, _ := fx.Create(&fx.CreateSpec{RecoveryCommit: fx.Commit(keys[i], code), UpdateCommit: fx.Commit(keys[j], code), Patches: patches, Code: code})
						_, err := v.Parser.Parse("did:sidetree", req)
						r.Eval()
						r.State()
						r.Trans(1)
						r.Trace(1)
						if i == j {
							r.Nontrivial(caseID)
						}
						if (err == nil) != (i != j) {
							r.Violation(fmt.Sprintf("intake-equal-commitments:create:equal=%v", i == j), caseID,
								fmt.Sprintf("create (%s) with recovery commitment of key %d and update commitment of key %d: accepted=%v err=%v", kt, i, j, err == nil, err), nil)
						}
					}
					caseID = fmt.Sprintf("intake|%s|recover-eq|i=%d|j=%d|c=%d", kt, i, j, code)
					if r.Want(caseID) {
						signer := fx.NewKey(kt, "c12/signer")
						s := &fx.OpSpec{Type: "recover", Suffix: "EiSuffix", SignKey: signer, Code: code, Patches: patches,
							NextRecov: fx.Commit(keys[i], code), NextUpdate: fx.Commit(keys[j], code)}
						_, err := v.Parser.Parse("did:sidetree", s.Build())
						r.Eval()
						r.State()
						r.Trans(1)
						r.Trace(1)
						if i == j {
							r.Nontrivial(caseID)
						}
						if (err == nil) != (i != j) {
							r.Violation(fmt.Sprintf("intake-equal-commitments:recover:equal=%v", i == j), caseID,
								fmt.Sprintf("recover (%s) with next recovery commitment of key %d and update commitment of key %d: accepted=%v err=%v", kt, i, j, err == nil, err), nil)
						}
					}
				}
			}
		}
	}

	// ---------- request builders: the client refuses to build what intake would refuse
	for _, kt := range fx.KeyTypes {
		keys := []*fx.Key{fx.NewKey(kt, "c12/k0"), fx.NewKey(kt, "c12/k1")}
		other := fx.NewKey(kt, "c12/other")
		patches := toPatches([]interface{}{fx.AddServicePatch("s1", "https://example.com/s1")})
		for i := range keys {
			for j := range keys {
				for _, code := range []uint{fx.SHA256, fx.SHA512} {
					jwkI, err := libJWK(keys[i], "")
					if err != nil {
						panic(err)
					}
					rv, _ := commitment.GetRevealValue(jwkI, code)
					next := fx.Commit(keys[j], code)
					builders := map[string]func() ([]byte, error){
						"update": func() ([]byte, error) {
							return client.NewUpdateRequest(&client.UpdateRequestInfo{DidSuffix: "EiSuffix", Patches: patches, UpdateCommitment: next, UpdateKey: jwkI, MultihashCode: code,
								Signer: libSigner(keys[i], ""), RevealValue: rv})
						},
						"recover": func() ([]byte, error) {
							return client.NewRecoverRequest(&client.RecoverRequestInfo{DidSuffix: "EiSuffix", Patches: patches, RecoveryCommitment: next, UpdateCommitment: fx.Commit(other, code), RecoveryKey: jwkI,
								MultihashCode: code, Signer: libSigner(keys[i], ""), RevealValue: rv})
						},
						"recover-equal-commitments": func() ([]byte, error) {
							return client.NewRecoverRequest(&client.RecoverRequestInfo{DidSuffix: "EiSuffix", Patches: patches, RecoveryCommitment: fx.Commit(keys[1-i], code), UpdateCommitment: fx.Commit(keys[1-j], code),
								RecoveryKey: jwkI, MultihashCode: code, Signer: libSigner(keys[i], ""), RevealValue: rv})
						},
						"create-equal-commitments": func() ([]byte, error) {
							return client.NewCreateRequest(&client.CreateRequestInfo{Patches: patches, RecoveryCommitment: fx.Commit(keys[i], code), UpdateCommitment: next, MultihashCode: code})
						},
					}
					for name, build := range builders {
						caseID := fmt.Sprintf("builder|%s|%s|i=%d|j=%d|c=%d", kt, name, i, j, code)
						if !r.Want(caseID) {
							continue
						}
						req, err := build()
						r.Eval()
						r.State()
						r.Trans(1)
						bad := i == j // the pairing the statement forbids
						if name == "recover-equal-commitments" {
							// recovery commitment of key 1-i, update commitment of key 1-j: equal iff i == j; the revealed key is never re-committed
							bad = i == j
						}
						if bad {
							r.Nontrivial(caseID)
						}
						r.Outcome(fmt.Sprintf("builder %s forbidden=%v built=%v", name, bad, err == nil))
						if bad && err == nil {
							// the builder is the first line of defence only if intake would not refuse it either
							if _, perr := v.Parser.Parse("did:sidetree", req); perr == nil {
								r.Violation("builder-and-intake-accept:"+name, caseID, fmt.Sprintf("%s (%s): forbidden commitment pairing built and accepted at intake", name, kt), nil)
							} else if name != "recover-equal-commitments" {
								r.Violation("builder-builds-forbidden:"+name, caseID, fmt.Sprintf("%s (%s): the client builder produced a request that re-commits to the revealed key / uses equal commitments (intake refuses it: %v)", name, kt, perr), nil)
							}
						}
						if !bad && err != nil {
							r.Violation("builder-refuses-valid:"+name, caseID, fmt.Sprintf("%s (%s): valid commitment pairing refused by the builder: %v", name, kt, err), nil)
						}
					}
				}
			}
		}
	}

	// ---------- resolution: cycles
	kt, code := fx.Ed25519, fx.SHA256
	const n = 5
	uk := make([]*fx.Key, n+1)
	rk := make([]*fx.Key, n+1)
	for i := range uk {
		uk[i] = fx.NewKey(kt, fmt.Sprintf("c12/u%d", i))
		rk[i] = fx.NewKey(kt, fmt.Sprintf("c12/r%d", i))
	}
	cu := func(i int) string { return fx.Commit(uk[i], code) }
	cr := func(i int) string { return fx.Commit(rk[i], code) }
	d0 := []interface{}{fx.AddServicePatch("s0", "https://example.com/s0")}
	creq, suffix := fx.Create(&fx.CreateSpec{RecoveryCommit: cr(0), UpdateCommit: cu(0), Patches: d0, Code: code})
	pool := &fx.Pool{KT: kt, Code: code, Variant: "cycles", Suffix: suffix, Ops: map[string]*fx.PoolOp{}}
	addOp := func(o *fx.PoolOp) {
		o.Abs.ID, o.Abs.Type = o.ID, string(o.Type)
		pool.Ops[o.ID] = o
	}
	addOp(&fx.PoolOp{ID: "C", Type: operation.TypeCreate, Req: creq, Abs: sidetree.Op{ParseOK: true, NextUpdate: cu(0), NextRecovery: cr(0), Delta: "ok", Patches: d0}})
	for i := 0; i <= 5; i++ {
		for j := 0; j <= 5; j++ {
			id := fmt.Sprintf("U%d>%d", i, j)
			p := []interface{}{fx.AddServicePatch(fmt.Sprintf("u%d-%d", i, j), "https://example.com/x")}
			s := &fx.OpSpec{Type: "update", Suffix: suffix, SignKey: uk[i], NextUpdate: cu(j), Patches: p, Code: code}
			addOp(&fx.PoolOp{ID: id, Type: operation.TypeUpdate, Req: s.Build(),
				Abs: sidetree.Op{ParseOK: true, Reveals: cu(i), Authorized: true, NextUpdate: cu(j), Delta: "ok", Patches: p}})
			id = fmt.Sprintf("R%d>%d", i, j)
			p = []interface{}{fx.AddServicePatch(fmt.Sprintf("r%d-%d", i, j), "https://example.com/x")}
			// recover keeps the update commitment chain at u0 so that updates can follow
			s = &fx.OpSpec{Type: "recover", Suffix: suffix, SignKey: rk[i], NextRecov: cr(j), NextUpdate: cu(0), Patches: p, Code: code}
			addOp(&fx.PoolOp{ID: id, Type: operation.TypeRecover, Req: s.Build(),
				Abs: sidetree.Op{ParseOK: i != j, Reveals: cr(i), Authorized: true, NextRecovery: cr(j), NextUpdate: cu(0), Delta: "ok", Patches: p}})
			// the same recover without its delta member: still authorised, still commits to r_j (the document is emptied)
			sn := &fx.OpSpec{Type: "recover", Suffix: suffix, SignKey: rk[i], NextRecov: cr(j), NextUpdate: cu(0), Patches: p, Code: code, NoDelta: true}
			addOp(&fx.PoolOp{ID: id + "~n", Type: operation.TypeRecover, Req: sn.Build(),
				Abs: sidetree.Op{ParseOK: i != j, Reveals: cr(i), Authorized: true, NextRecovery: cr(j), NextUpdate: cu(0), Delta: sidetree.DeltaHashMismatch, Patches: p}})
		}
	}
	for _, chainType := range []string{"U", "R"} {
		maxLen := 4
		if r.Tier == "thorough" {
			maxLen = 5
		}
		for length := 1; length <= maxLen && length <= n; length++ {
			// forward chain X0>1 .. X(length-1)>length at times 2,4,..
			var fwd []fx.Placed
			fwd = append(fwd, fx.Placed{Op: pool.Get("C"), Time: 1, Num: 0, Published: true})
			for i := 0; i < length; i++ {
				fwd = append(fwd, fx.Placed{Op: pool.Get(fmt.Sprintf("%s%d>%d", chainType, i, i+1)), Time: uint64(2 + 2*i), Num: 1, Published: true})
			}
			// closing operations: reveal i (0..length), next j <= i ; anchored at every slot
			type closing struct{ i, j int }
			var cl []closing
			for i := 0; i <= length && i <= 5; i++ {
				for j := 0; j <= i; j++ {
					cl = append(cl, closing{i, j})
				}
			}
			var slots []Coord
			for t := uint64(1); t <= uint64(2*length+3); t++ {
				slots = append(slots, Coord{t, 0})
			}
			type job struct{ extra []fx.Placed }
			var jobs []job
			for _, c1 := range cl {
				for _, s1 := range slots {
					p1 := fx.Placed{Op: pool.Get(fmt.Sprintf("%s%d>%d", chainType, c1.i, c1.j)), Time: s1.T, Num: 0, Published: true}
					jobs = append(jobs, job{[]fx.Placed{p1}})
					// the closing operation as an unpublished operation (accepted at intake, not yet anchored)
					jobs = append(jobs, job{[]fx.Placed{{Op: p1.Op, Time: s1.T, Num: 0, Published: false}}})
					if chainType == "R" { // the closing recover without a delta member
						jobs = append(jobs, job{[]fx.Placed{{Op: pool.Get(fmt.Sprintf("R%d>%d~n", c1.i, c1.j)), Time: s1.T, Num: 0, Published: true}}})
					}
					if length <= 4 || r.Tier == "thorough" {
						for _, c2 := range cl {
							for _, s2 := range slots {
								if s2.T <= s1.T {
									continue
								}
								p2 := fx.Placed{Op: pool.Get(fmt.Sprintf("%s%d>%d", chainType, c2.i, c2.j)), Time: s2.T, Num: 2, Published: true}
								jobs = append(jobs, job{[]fx.Placed{p1, p2}})
							}
						}
					}
				}
			}
			hx.ParallelFor(len(jobs), func(ji int) {
				ex := jobs[ji].extra
				for variant := 0; variant < 2; variant++ {
					// variant 1 drops the last legitimate continuation (so a closing op may be the only candidate)
					base := fwd
					if variant == 1 {
						base = fwd[:len(fwd)-1]
					}
					placed := append(append([]fx.Placed{}, ex...), base...)
					tag := fmt.Sprintf("cyc|%s|len=%d|v=%d", chainType, length, variant)
					compareWithModel(r, tag, protoClient, pool, placed, delta)
					// the same history next to a stored operation whose protocol version the client cannot serve (a failing
					// lookup): it is ignored, and the cycle stays refused
					if len(ex) > 0 {
						junk := ex[0]
						junk.Time, junk.Num, junk.Version, junk.Unknown = 1, 7, 77, true
						compareWithModel(r, tag+"|unknown-version", versionFailClient{protoClient, 77}, pool, append([]fx.Placed{junk}, placed...), delta)
					}
					st, err := ResolveModel(placed, nil, delta)
					if err == nil {
						seen := map[string]bool{}
						for _, c := range st.Consumed {
							if seen[c] {
								panic("reference revisited a commitment")
							}
							seen[c] = true
						}
					}
				}
			})
		}
	}
	r.Assumptions = append(r.Assumptions,
		"equality with ref/sidetree, whose consumed-commitment sequence is asserted repetition-free, is the oracle for 'a chain never revisits a commitment'",
		"the recover self-loop R_i>i is refused by the parser in every mode (ParseOK=false in the reference)")
}
