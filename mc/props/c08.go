package props

import (
	"fmt"
	"math"
	"math/big"
	"sort"
	"strconv"
	"strings"

	"github.com/trustbloc/sidetree-core-go/pkg/api/operation"
	"github.com/trustbloc/sidetree-core-go/pkg/commitment"
	"github.com/trustbloc/sidetree-core-go/pkg/dochandler"
	"github.com/trustbloc/sidetree-core-go/pkg/document"
	"github.com/trustbloc/sidetree-core-go/pkg/hashing"
	"github.com/trustbloc/sidetree-core-go/pkg/jws"
	"github.com/trustbloc/sidetree-core-go/pkg/processor"

	"verif/mc/fx"
	"verif/mc/hx"
	"verif/mc/ref/jcs"
)

func init() { register("C08", c08) }

// reser writes a Go JSON tree with the chosen member order, whitespace and escaping.
type reser struct {
	order  int // 0 sorted, 1 reverse, 2 rotate
	ws     string
	escape int // 0 raw, 1 \u lower for every char, 2 \u upper, 3 solidus escaped
}

func (o reser) str(sb *strings.Builder, s string) {
	sb.WriteByte('"')
	for _, c := range s {
		switch {
		case o.escape == 1 && c < 0x10000:
			fmt.Fprintf(sb, "\\u%04x", c)
		case o.escape == 2 && c < 0x10000:
			fmt.Fprintf(sb, "\\u%04X", c)
		case o.escape == 3 && c == '/':
			sb.WriteString(`\/`)
		case c == '"' || c == '\\':
			sb.WriteByte('\\')
			sb.WriteRune(c)
		case c < 0x20:
			fmt.Fprintf(sb, "\\u%04x", c)
		default:
			sb.WriteRune(c)
		}
	}
	sb.WriteByte('"')
}

func (o reser) val(sb *strings.Builder, v interface{}) {
	switch t := v.(type) {
	case map[string]interface{}:
		keys := make([]string, 0, len(t))
		for k := range t {
			keys = append(keys, k)
		}
		sort.Strings(keys)
		switch o.order {
		case 1:
			for i, j := 0, len(keys)-1; i < j; i, j = i+1, j-1 {
				keys[i], keys[j] = keys[j], keys[i]
			}
		case 2:
			if len(keys) > 1 {
				keys = append(keys[1:], keys[0])
			}
		}
		sb.WriteString("{" + o.ws)
		for i, k := range keys {
			if i > 0 {
				sb.WriteString(o.ws + "," + o.ws)
			}
			o.str(sb, k)
			sb.WriteString(o.ws + ":" + o.ws)
			o.val(sb, t[k])
		}
		sb.WriteString(o.ws + "}")
	case []interface{}:
		sb.WriteString("[" + o.ws)
		for i, e := range t {
			if i > 0 {
				sb.WriteString(o.ws + "," + o.ws)
			}
			o.val(sb, e)
		}
		sb.WriteString(o.ws + "]")
	case string:
		o.str(sb, t)
	default:
		b, _ := jcs.Canonical(jcs.FromGo(t))
		sb.Write(b)
	}
}

func reserializations(v interface{}) [][]byte {
	var out [][]byte
	for order := 0; order < 3; order++ {
		for _, ws := range []string{"", " ", "\n\t"} {
			for esc := 0; esc < 4; esc++ {
				var sb strings.Builder
				reser{order, ws, esc}.val(&sb, v)
				out = append(out, []byte(sb.String()))
			}
		}
	}
	return out
}

func c08(r *hx.Run) {
	fx.Quiet()
	r.Rule = "(A) create requests over {2 documents} x {anchor origin absent/string/object} x {type absent/present} x 2 hash algorithms x 5 key types, each in 36 re-serializations (member order x whitespace x escape spelling): the real parser must accept each and derive the same suffix; suffix data / delta / key models hashed through the library in every re-serialization must equal the independent hash; (B) commitment == hash of decoded reveal value == independent double hash for every key, nonce and algorithm; (C) IsValidModelMultihash accepts exactly the correct multihash string among: correct under either algorithm, other model's digest, every single-character substitution, truncations, embedded CR/LF, wrong code; (D) long-form DID through a real DocumentHandler with an empty store: valid resolves; every single-character substitution of the initial-state and suffix segments, every single-member alteration re-encoded canonically, a non-canonical encoding and swapped initial states are rejected; (E) 31 numbers at the formatting boundaries (1e21, 1e-6, 2^53.., subnormal, max) each in up to 6 spellings and 22 strings of every escape class, as values and as member names inside a create's delta: library hash == hash of the independent RFC 8785 form for every spelling, the hash of a non-canonical spelling is not accepted, the create is accepted with the independent suffix, the canonical long form resolves and a long form with another number spelling does not. Non-trivial: distinct inputs that reach the hash comparison."
	client, v256 := stdClient()
	p512 := fx.DefaultProtocol()
	p512.MultihashAlgorithms = []uint{fx.SHA512, fx.SHA256} // the suffix is computed with the protocol's first algorithm
	v512 := fx.NewVersion(p512, nil)
	client512 := fx.NewClient(v512)
	verFor := func(code uint) *fx.Version {
		if code == fx.SHA512 {
			return v512
		}
		return v256
	}
	const ns = "did:sidetree"
	b64url := "ABCDEFGHIJKLMNOPQRSTUVWXYZabcdefghijklmnopqrstuvwxyz0123456789-_"

	// ---------- (A) re-serialization invariance through the parser
	docs := [][]interface{}{
		{fx.AddServicePatch("s/1", "https://example.com/a/b"), fx.JSONPatch(fx.JOp("add", "/note", "é \"q\" \\ /"))},
		{map[string]interface{}{"action": "replace", "document": map[string]interface{}{"publicKeys": []interface{}{fx.KeyEntry("k1", fx.NewKey(fx.P256, "c08/doc"), []interface{}{"authentication", "assertionMethod"})}, "services": []interface{}{fx.ServiceEntry("s1", "https://example.com/x")}}}},
	}
	docs[0][0] = fx.AddServicePatch("s1", "https://example.com/a/b")
	origins := []interface{}{nil, "https://origin.example/ö", map[string]interface{}{"b": []interface{}{1.0, true}, "a": "x/y"}}
	type createCase struct {
		kt    string
		code  uint
		spec  *fx.CreateSpec
		label string
	}
	var creates []createCase
	for _, kt := range fx.KeyTypes {
		for _, code := range []uint{fx.SHA256, fx.SHA512} {
			rk, uk := fx.NewKey(kt, "c08/r"), fx.NewKey(kt, "c08/u")
			for di, d := range docs {
				for oi, o := range origins {
					for _, typ := range []string{"", "t1"} {
						creates = append(creates, createCase{kt, code, &fx.CreateSpec{RecoveryCommit: fx.Commit(rk, code), UpdateCommit: fx.Commit(uk, code), Patches: d, Code: code, AnchorOrigin: o, Type: typ},
							fmt.Sprintf("%s|%d|d%d|o%d|t%s", kt, code, di, oi, typ)})
					}
				}
			}
		}
	}
	hx.ParallelFor(len(creates), func(i int) {
		cc := creates[i]
		req, suffix := fx.Create(cc.spec)
		tree := fx.MustJSON(string(req))
		r.State()
		for vi, ser := range reserializations(tree) {
			caseID := fmt.Sprintf("A|%s|v%d", cc.label, vi)
			if !r.Want(caseID) {
				continue
			}
			op, err := verFor(cc.code).Parser.Parse(ns, ser)
			r.Eval()
			r.Trans(1)
			r.Trace(1)
			r.Nontrivial(caseID)
			if err != nil {
				r.Violation("reserialized-create-rejected", caseID, fmt.Sprintf("re-serialization %d of a valid create rejected: %v\n%s", vi, err, hx.Trunc(string(ser), 300)), map[string]interface{}{"request": string(ser)})
				continue
			}
			if op.UniqueSuffix != suffix {
				r.Violation("suffix-depends-on-serialization", caseID, fmt.Sprintf("suffix %s differs from %s for re-serialization %d", op.UniqueSuffix, suffix, vi), map[string]interface{}{"request": string(ser)})
			}
		}
		// models hashed from raw bytes in every serialization
		m := tree.(map[string]interface{})
		for name, model := range map[string]interface{}{"suffixData": m["suffixData"], "delta": m["delta"]} {
			want := fx.ModelHash(cc.code, model)
			for vi, ser := range reserializations(model) {
				caseID := fmt.Sprintf("A|%s|%s|v%d", cc.label, name, vi)
				if !r.Want(caseID) {
					continue
				}
				got, err := hashing.CalculateModelMultihash(ser, cc.code)
				r.Eval()
				if err != nil || got != want {
					r.Violation("model-hash-depends-on-serialization:"+name, caseID, fmt.Sprintf("hash of %s serialization %d = %s (%v), want %s", name, vi, got, err, want), nil)
				}
				if e := hashing.IsValidModelMultihash(ser, want); e != nil {
					r.Violation("valid-hash-rejected:"+name, caseID, e.Error(), nil)
				}
			}
		}
		r.Sample(cc.label)
	})

	// ---------- (B) commitments
	for _, kt := range fx.KeyTypes {
		for _, name := range []string{"c08/k1", "c08/k2", "c08/k3"} {
			k := fx.NewKey(kt, name)
			for _, nonce := range []string{"", fx.B64([]byte("0123456789abcdef"))} {
				for _, code := range []uint{fx.SHA256, fx.SHA512} {
					caseID := fmt.Sprintf("B|%s|%s|n=%v|%d", kt, name, nonce != "", code)
					if !r.Want(caseID) {
						continue
					}
					j := &jws.JWK{Kty: k.JWK.Kty, Crv: k.JWK.Crv, X: k.JWK.X, Y: k.JWK.Y, Nonce: nonce}
					c1, e1 := commitment.GetCommitment(j, code)
					rv, e2 := commitment.GetRevealValue(j, code)
					c2, e3 := commitment.GetCommitmentFromRevealValue(rv)
					r.Eval()
					r.State()
					r.Nontrivial(caseID)
					if e1 != nil || e2 != nil || e3 != nil {
						r.Violation("commitment-error", caseID, fmt.Sprint(e1, e2, e3), nil)
						continue
					}
					if c1 != c2 || c1 != fx.CommitN(k, code, nonce) || rv != fx.RevealN(k, code, nonce) {
						r.Violation("commitment-mismatch", caseID, fmt.Sprintf("GetCommitment=%s fromReveal=%s independent=%s reveal=%s independent=%s", c1, c2, fx.CommitN(k, code, nonce), rv, fx.RevealN(k, code, nonce)), nil)
					}
				}
			}
		}
	}

	// ---------- (C) IsValidModelMultihash exactness
	models := []interface{}{
		map[string]interface{}{"deltaHash": "EiAbc", "recoveryCommitment": "EiDef"},
		fx.Delta("EiUpd", docs[0]),
		fx.JWKMap(fx.NewKey(fx.P256, "c08/m"), ""),
	}
	for mi, m := range models {
		canon := jcs.MustCanon(m)
		correct := map[string]bool{fx.Multihash(fx.SHA256, canon): true, fx.Multihash(fx.SHA512, canon): true}
		var cands []string
		for h := range correct {
			cands = append(cands, h)
			for i := 0; i < len(h); i++ {
				for _, c := range b64url {
					if byte(c) != h[i] {
						cands = append(cands, h[:i]+string(c)+h[i+1:])
					}
				}
				cands = append(cands, h[:i], h[:i]+"\n"+h[i:], h[:i]+"\r\n"+h[i:], h[:i]+"="+h[i:], h[:i]+" "+h[i:])
			}
			cands = append(cands, h+"A", h+"=", h+"==", "A"+h)
		}
		other := jcs.MustCanon(models[(mi+1)%len(models)])
		cands = append(cands, fx.Multihash(fx.SHA256, other), fx.Multihash(fx.SHA512, other), "",
			fx.B64(fx.MultihashBytes(0x12, fx.RawHash(fx.SHA512, canon))), fx.B64(fx.MultihashBytes(0x13, fx.RawHash(fx.SHA256, canon))),
			fx.B64(append([]byte{0x11, 20}, fx.RawHash(fx.SHA256, canon)[:20]...)), fx.B64(append([]byte{0x16, 32}, fx.RawHash(fx.SHA256, canon)...)),
			fx.B64(fx.RawHash(fx.SHA256, canon)))
		// well-formed multihashes that carry only a PREFIX of the right digest (every length, the length byte adjusted), or the right
		// digest followed by more bytes (length byte adjusted)
		for _, alg := range []struct {
			code byte
			id   uint
		}{{0x12, fx.SHA256}, {0x13, fx.SHA512}} {
			digest := fx.RawHash(alg.id, canon)
			for n := 0; n < len(digest); n++ {
				cands = append(cands, fx.B64(append([]byte{alg.code, byte(n)}, digest[:n]...)))
			}
			cands = append(cands, fx.B64(append(append([]byte{alg.code, byte(len(digest) + 1)}, digest...), 0)))
		}
		hx.ParallelFor(len(cands), func(ci int) {
			h := cands[ci]
			caseID := fmt.Sprintf("C|m%d|%q", mi, h)
			if !r.Want(caseID) {
				return
			}
			var err error
			func() {
				defer func() {
					if p := recover(); p != nil {
						err = fmt.Errorf("panic: %v", p)
						r.Violation("panic:IsValidModelMultihash", caseID, fmt.Sprint(p), nil)
					}
				}()
				err = hashing.IsValidModelMultihash(m, h)
			}()
			r.Eval()
			r.Trans(1)
			r.Nontrivial(caseID)
			if (err == nil) != correct[h] {
				r.Violation(fmt.Sprintf("multihash-exactness:accepted=%v", err == nil), caseID, fmt.Sprintf("model %d against %q: accepted=%v, correct=%v (%v)", mi, h, err == nil, correct[h], err), map[string]interface{}{"hash": h})
			}
		})
		r.State()
	}

	// ---------- (D) long-form DIDs
	handlers := map[uint]*dochandler.DocumentHandler{
		fx.SHA256: dochandler.New(ns, nil, client, &recWriter{}, processor.New("verif", fx.SliceStore(nil), client), fx.Metrics),
		fx.SHA512: dochandler.New(ns, nil, client512, &recWriter{}, processor.New("verif", fx.SliceStore(nil), client512), fx.Metrics),
	}
	var handler *dochandler.DocumentHandler
	var lfUpdateReq []byte // an update request for the long-form DID under test, passed as a caller-supplied operation
	longForm := func(cs *fx.CreateSpec) (did string, suffix string, initial string, tree map[string]interface{}) {
		req, sfx := fx.Create(cs)
		t := fx.MustJSON(string(req)).(map[string]interface{})
		delete(t, "type")
		initial = fx.B64(jcs.MustCanon(t))
		return ns + ":" + sfx + ":" + initial, sfx, initial, t
	}
	resolves := func(caseID, did string) bool {
		var ok bool
		func() {
			defer func() {
				if p := recover(); p != nil {
					r.Violation("panic:ResolveDocument", caseID, fmt.Sprintf("%v on %s", p, hx.Trunc(did, 100)), nil)
				}
			}()
			res, err := handler.ResolveDocument(did)
			ok = err == nil && res != nil
			// a long-form DID that is refused stays refused whatever resolution options accompany it (operations supplied by the
			// caller, a version id, a version time); a version option may turn an acceptable one into an error (unknown version)
			seg := strings.Split(did, ":")
			sfx := ""
			if len(seg) >= 2 {
				sfx = seg[len(seg)-2]
			}
			add := document.WithAdditionalOperations([]*operation.AnchoredOperation{{Type: operation.TypeUpdate, UniqueSuffix: sfx, OperationRequest: lfUpdateReq, TransactionTime: 5}})
			for oi, opt := range []document.ResolutionOption{add, document.WithVersionID("unknown"), document.WithVersionTime("1970-01-01T00:00:09Z")} {
				res2, err2 := handler.ResolveDocument(did, opt)
				r.Eval()
				if ok2 := err2 == nil && res2 != nil; ok2 && !ok {
					r.Violation(fmt.Sprintf("long-form-accepted-with-resolution-option:%d", oi), caseID+fmt.Sprintf("|opt%d", oi),
						fmt.Sprintf("long-form DID %s: resolves=%v without options, %v with option %d (0 additional operations, 1 version id, 2 version time): %v", hx.Trunc(did, 160), ok, ok2, oi, err2), map[string]interface{}{"did": did})
				}
			}
		}()
		r.Eval()
		r.Trans(1)
		return ok
	}
	var lfCases []createCase
	for _, kt := range []string{fx.Ed25519, fx.P256} {
		for _, code := range []uint{fx.SHA256, fx.SHA512} {
			if r.Tier == "quick" && !(kt == fx.Ed25519 || code == fx.SHA256) {
				continue
			}
			rk, uk := fx.NewKey(kt, "c08/r"), fx.NewKey(kt, "c08/u")
			for oi, o := range origins[:2] {
				lfCases = append(lfCases, createCase{kt, code, &fx.CreateSpec{RecoveryCommit: fx.Commit(rk, code), UpdateCommit: fx.Commit(uk, code), Patches: docs[0], Code: code, AnchorOrigin: o}, fmt.Sprintf("%s|%d|o%d", kt, code, oi)})
			}
		}
	}
	if r.Tier == "thorough" {
		for _, kt := range []string{fx.P384, fx.P521, fx.Secp256k1} {
			rk, uk := fx.NewKey(kt, "c08/r"), fx.NewKey(kt, "c08/u")
			lfCases = append(lfCases, createCase{kt, fx.SHA256, &fx.CreateSpec{RecoveryCommit: fx.Commit(rk, fx.SHA256), UpdateCommit: fx.Commit(uk, fx.SHA256), Patches: docs[1], Code: fx.SHA256}, kt + "|18|doc1"})
		}
	}
	for li, lc := range lfCases {
		did, suffix, initial, tree := longForm(lc.spec)
		handler = handlers[lc.code]
		lfUpdateReq = (&fx.OpSpec{Type: "update", Suffix: suffix, SignKey: fx.NewKey(lc.kt, "c08/u"), NextUpdate: fx.Commit(fx.NewKey(lc.kt, "c08/u2"), lc.code),
			Patches: []interface{}{fx.AddServicePatch("lf", "https://example.com/lf")}, Code: lc.code}).Build()
		tag := "D|" + lc.label
		r.State()
		if !resolves(tag+"|valid", did) {
			r.Violation("valid-long-form-rejected", tag+"|valid", "valid long-form DID does not resolve: "+hx.Trunc(did, 120), nil)
			continue
		}
		r.Nontrivial(tag + "|valid")
		mustReject := func(class, id, d string) {
			caseID := tag + "|" + id
			if !r.Want(caseID) {
				return
			}
			r.Nontrivial(caseID)
			if resolves(caseID, d) {
				r.Violation("long-form-accepts:"+class, caseID, fmt.Sprintf("altered long-form DID resolves (%s): %s", class, hx.Trunc(d, 160)), map[string]interface{}{"did": d})
			} else {
				r.Outcome("long-form " + class + " rejected")
			}
		}
		// single-character substitutions of the initial-state segment
		type sub struct {
			i int
			c rune
		}
		var subs []sub
		stepc := 1
		if r.Tier == "quick" {
			stepc = 4 // every 4th alphabet character per position in quick (all positions); thorough: all 63
		}
		for i := 0; i < len(initial); i++ {
			for ci, c := range b64url {
				if byte(c) == initial[i] || (ci+i)%stepc != 0 {
					continue
				}
				subs = append(subs, sub{i, c})
			}
		}
		hx.ParallelFor(len(subs), func(si int) {
			s := subs[si]
			mustReject("initial-state-char", fmt.Sprintf("is%d.%c", s.i, s.c), ns+":"+suffix+":"+initial[:s.i]+string(s.c)+initial[s.i+1:])
		})
		for i := 0; i < len(suffix); i++ {
			for _, c := range b64url {
				if byte(c) != suffix[i] {
					mustReject("suffix-char", fmt.Sprintf("sf%d.%c", i, c), ns+":"+suffix[:i]+string(c)+suffix[i+1:]+":"+initial)
				}
			}
		}
		// single-member alterations, re-encoded canonically
		alter := func(id string, f func(t map[string]interface{})) {
			t := fx.MustJSON(string(jcs.MustCanon(tree))).(map[string]interface{})
			f(t)
			if string(jcs.MustCanon(t)) == string(jcs.MustCanon(tree)) {
				return // the alteration is the identity for this document (e.g. removing the second patch of a one-patch delta)
			}
			mustReject("member-alteration", "alt|"+id, ns+":"+suffix+":"+fx.B64(jcs.MustCanon(t)))
		}
		sd := func(t map[string]interface{}) map[string]interface{} { return t["suffixData"].(map[string]interface{}) }
		dl := func(t map[string]interface{}) map[string]interface{} { return t["delta"].(map[string]interface{}) }
		alter("sd-type-added", func(t map[string]interface{}) { sd(t)["type"] = "x" })
		alter("sd-origin-changed", func(t map[string]interface{}) { sd(t)["anchorOrigin"] = "evil" })
		alter("sd-extra-member", func(t map[string]interface{}) { sd(t)["extra"] = 1.0 })
		alter("sd-recovery-changed", func(t map[string]interface{}) {
			sd(t)["recoveryCommitment"] = fx.Commit(fx.NewKey(lc.kt, "c08/evil"), lc.code)
		})
		alter("sd-deltahash-changed", func(t map[string]interface{}) { sd(t)["deltaHash"] = fx.Multihash(lc.code, []byte("x")) })
		alter("sd-deltahash-removed", func(t map[string]interface{}) { delete(sd(t), "deltaHash") })
		alter("sd-removed", func(t map[string]interface{}) { delete(t, "suffixData") })
		alter("delta-removed", func(t map[string]interface{}) { delete(t, "delta") })
		alter("delta-commitment-changed", func(t map[string]interface{}) {
			dl(t)["updateCommitment"] = fx.Commit(fx.NewKey(lc.kt, "c08/evil"), lc.code)
		})
		alter("delta-commitment-removed", func(t map[string]interface{}) { delete(dl(t), "updateCommitment") })
		alter("delta-patch-added", func(t map[string]interface{}) {
			dl(t)["patches"] = append(dl(t)["patches"].([]interface{}), fx.AddServicePatch("evil", "https://evil.example"))
		})
		alter("delta-patch-removed", func(t map[string]interface{}) { dl(t)["patches"] = dl(t)["patches"].([]interface{})[:1] })
		alter("delta-patches-emptied", func(t map[string]interface{}) { dl(t)["patches"] = []interface{}{} })
		alter("delta-extra-member", func(t map[string]interface{}) { dl(t)["extra"] = "x" })
		alter("delta-and-hash-replaced", func(t map[string]interface{}) {
			nd := fx.Delta(dl(t)["updateCommitment"].(string), []interface{}{fx.AddServicePatch("evil", "https://evil.example")})
			t["delta"] = nd
			sd(t)["deltaHash"] = fx.ModelHash(lc.code, nd)
		})
		alter("top-extra-member", func(t map[string]interface{}) { t["extra"] = true })
		// non-canonical encodings of the same JSON value
		for vi, ser := range reserializations(tree) {
			if string(ser) == string(jcs.MustCanon(tree)) {
				continue
			}
			mustReject("non-canonical-encoding", fmt.Sprintf("noncanon%d", vi), ns+":"+suffix+":"+fx.B64(ser))
		}
		mustReject("padded-encoding", "padded", did+"=")
		mustReject("std-alphabet", "empty-initial", ns+":"+suffix+":")
		// swapped initial state
		if li > 0 {
			_, _, otherInitial, _ := longForm(lfCases[li-1].spec)
			mustReject("swapped-initial-state", "swapped", ns+":"+suffix+":"+otherInitial)
		}
		r.Sample(hx.Trunc(did, 100))
	}
	// ---------- (E) content classes: numbers at every formatting boundary in several spellings, strings of every escape class,
	// as values and as member names inside the delta of a create request
	handler = handlers[fx.SHA256]
	type content struct {
		label string
		val   interface{}
		spell []string // for numbers: alternative spellings of the same value
	}
	var contents []content
	for _, f := range []float64{1e21, math.Nextafter(1e21, 0), math.Nextafter(1e21, 2e21), 1e-6, math.Nextafter(1e-6, 0), math.Nextafter(1e-6, 1), 1e-7, 0, 1, -1, 1.5, -1.5, 0.1,
		100, 1e20, 999999999999999900000, 9007199254740992, 9007199254740994, 1152921504606846976, -4611686018427387904, 9223372036854775808, 18446744073709551616,
		123456789012345680000, 1e300, 5e-324, 1.7976931348623157e308, 2.2250738585072014e-308, 4.35, 0.000001234, 1e-10, 333333333.33333329} {
		c := content{label: "num|" + strconv.FormatFloat(f, 'g', -1, 64), val: f}
		seen := map[string]bool{string(jcs.MustCanon(f)): true}
		add := func(sp string) {
			if !seen[sp] {
				seen[sp] = true
				c.spell = append(c.spell, sp)
			}
		}
		add(strconv.FormatFloat(f, 'e', -1, 64))
		add(strings.ToUpper(strconv.FormatFloat(f, 'e', -1, 64)))
		if math.Abs(f) < 1e25 && math.Abs(f) > 1e-12 || f == 0 {
			add(strconv.FormatFloat(f, 'f', -1, 64))
			if f == math.Trunc(f) {
				add(strconv.FormatFloat(f, 'f', 1, 64))
				add(new(big.Float).SetFloat64(f).Text('f', 0)) // every digit of the exact integer
			}
		}
		if f == 0 {
			add("-0")
			add("0e0")
			add("-0.0")
		}
		contents = append(contents, c)
	}
	for i, str := range []string{"", "%", "100% %s %d %%", "\u007f", "\u2028\u2029", "\U0001F600", "\ue000", "\uffff", "\U0001F600\ue000", "\u0000\u001f", "\b\f\n\r\t", "\"\\/", "é", "a\u0301",
		"\u00e9", "<>&'", "\ufeff", "\u200b", "\U00010000", "\U0010FFFF", "\u0080\u009f", "\ud7ff"} {
		contents = append(contents, content{label: fmt.Sprintf("str|%d", i), val: str})
	}
	rk, uk := fx.NewKey(fx.Ed25519, "c08/r"), fx.NewKey(fx.Ed25519, "c08/u")
	hx.ParallelFor(len(contents), func(ci int) {
		c := contents[ci]
		payloads := map[string]interface{}{"value": map[string]interface{}{"v": []interface{}{c.val}}}
		if str, ok := c.val.(string); ok && str != "" {
			// as member names next to names that sort differently by UTF-16 code unit and by code point
			payloads["name"] = map[string]interface{}{str: 1.0, "\U0001F600": 2.0, "\ue000": 3.0, "a": 4.0, "": 5.0}
		}
		for pname, payload := range payloads {
			spec := &fx.CreateSpec{RecoveryCommit: fx.Commit(rk, fx.SHA256), UpdateCommit: fx.Commit(uk, fx.SHA256), Code: fx.SHA256,
				Patches: []interface{}{fx.JSONPatch(fx.JOp("add", "/x", payload)), fx.AddServicePatch("s1", "https://example.com/a")}}
			req, suffix := fx.Create(spec)
			tree := fx.MustJSON(string(req)).(map[string]interface{})
			delta := tree["delta"]
			canonDelta := jcs.MustCanon(delta)
			want := fx.Multihash(fx.SHA256, canonDelta)
			tag := "E|" + c.label + "|" + pname
			r.State()
			texts := map[string][]byte{"canonical": req}
			deltaTexts := map[string][]byte{"canonical": canonDelta}
			if f, ok := c.val.(float64); ok {
				tok := "[" + string(jcs.MustCanon(f)) + "]"
				if strings.Count(string(req), tok) != 1 || strings.Count(string(canonDelta), tok) != 1 {
					panic("number token is not unique in the request: " + tok)
				}
				for _, sp := range c.spell {
					texts["spelled "+sp] = []byte(strings.Replace(string(req), tok, "["+sp+"]", 1))
					deltaTexts["spelled "+sp] = []byte(strings.Replace(string(canonDelta), tok, "["+sp+"]", 1))
				}
			}
			for name, dt := range deltaTexts {
				caseID := tag + "|hash|" + name
				if !r.Want(caseID) {
					continue
				}
				got, err := hashing.CalculateModelMultihash(dt, fx.SHA256)
				r.Eval()
				r.Trans(1)
				r.Nontrivial(caseID)
				if err != nil || got != want {
					r.Violation("content-hash-is-not-hash-of-canonical-form", caseID, fmt.Sprintf("delta %s: library hash %s (%v), hash of the RFC 8785 form %s\ncanonical: %s", hx.Trunc(string(dt), 200), got, err, want, hx.Trunc(string(canonDelta), 200)), map[string]interface{}{"delta": string(dt)})
				}
				if e := hashing.IsValidModelMultihash(dt, want); e != nil {
					r.Violation("content-valid-hash-rejected", caseID, e.Error(), map[string]interface{}{"delta": string(dt)})
				}
				if name != "canonical" { // the hash of the bytes as spelled is not the hash of the canonical form
					if e := hashing.IsValidModelMultihash(dt, fx.Multihash(fx.SHA256, dt)); e == nil {
						r.Violation("content-noncanonical-hash-accepted", caseID, "the hash of a non-canonical spelling is accepted as the model's hash: "+hx.Trunc(string(dt), 200), map[string]interface{}{"delta": string(dt)})
					}
				}
			}
			for name, txt := range texts {
				caseID := tag + "|parse|" + name
				if !r.Want(caseID) {
					continue
				}
				op, err := v256.Parser.Parse(ns, txt)
				r.Eval()
				r.Trans(1)
				r.Nontrivial(caseID)
				if err != nil {
					r.Violation("content-create-rejected", caseID, fmt.Sprintf("create with correctly hashed content rejected: %v\n%s", err, hx.Trunc(string(txt), 300)), map[string]interface{}{"request": string(txt)})
				} else if op.UniqueSuffix != suffix {
					r.Violation("content-suffix", caseID, fmt.Sprintf("suffix %s, independent %s", op.UniqueSuffix, suffix), map[string]interface{}{"request": string(txt)})
				}
			}
			// long form: the canonical encoding resolves; an encoding with another number spelling does not
			did, _, _, lt := longForm(spec)
			if caseID := tag + "|long|canonical"; r.Want(caseID) {
				r.Nontrivial(caseID)
				if !resolves(caseID, did) {
					r.Violation("content-long-form-rejected", caseID, "canonically encoded long-form DID does not resolve; initial state "+hx.Trunc(string(jcs.MustCanon(lt)), 300), map[string]interface{}{"did": did})
				}
			}
			if f, ok := c.val.(float64); ok {
				tok := "[" + string(jcs.MustCanon(f)) + "]"
				for _, sp := range c.spell {
					caseID := tag + "|long|spelled " + sp
					if !r.Want(caseID) {
						continue
					}
					r.Nontrivial(caseID)
					d := ns + ":" + suffix + ":" + fx.B64([]byte(strings.Replace(string(jcs.MustCanon(lt)), tok, "["+sp+"]", 1)))
					if resolves(caseID, d) {
						r.Violation("long-form-accepts:non-canonical-number", caseID, "long-form DID whose initial state spells a number non-canonically resolves: "+sp, map[string]interface{}{"did": d})
					}
				}
			}
		}
		r.Sample("E|" + c.label)
	})
	r.Assumptions = append(r.Assumptions,
		"in quick, the initial-state segment is substituted at every position with every 4th alphabet character (offset rotating with the position); thorough uses all 63 substitutes",
		"a long-form DID 'resolves' when DocumentHandler.ResolveDocument returns a result without error against an empty operation store")
}
