package props

import (
	"encoding/json"
	"fmt"
	"math/big"
	"sort"
	"strings"
	"time"

	"github.com/trustbloc/sidetree-core-go/pkg/api/operation"
	"github.com/trustbloc/sidetree-core-go/pkg/api/protocol"
	"github.com/trustbloc/sidetree-core-go/pkg/dochandler"
	"github.com/trustbloc/sidetree-core-go/pkg/document"
	"github.com/trustbloc/sidetree-core-go/pkg/patch"
	"github.com/trustbloc/sidetree-core-go/pkg/processor"
	"github.com/trustbloc/sidetree-core-go/pkg/versions/1_0/doctransformer/didtransformer"
	"github.com/trustbloc/sidetree-core-go/pkg/versions/1_0/doctransformer/doctransformer"
	"github.com/trustbloc/sidetree-core-go/pkg/versions/1_0/model"

	"verif/mc/fx"
	"verif/mc/hx"
	"verif/mc/ref/doc"
	"verif/mc/ref/jcs"
)

func init() { register("C19", c19) }

const b58Alphabet = "123456789ABCDEFGHJKLMNPQRSTUVWXYZabcdefghijkmnopqrstuvwxyz"

func base58(b []byte) string {
	x := new(big.Int).SetBytes(b)
	var out []byte
	zero, radix, mod := big.NewInt(0), big.NewInt(58), new(big.Int)
	for x.Cmp(zero) > 0 {
		x.DivMod(x, radix, mod)
		out = append(out, b58Alphabet[mod.Int64()])
	}
	for _, c := range b {
		if c != 0 {
			break
		}
		out = append(out, '1')
	}
	for i, j := 0, len(out)-1; i < j; i, j = i+1, j-1 {
		out[i], out[j] = out[j], out[i]
	}
	return string(out)
}

var c19KeyCtx = map[string]string{
	"Bls12381G2Key2020":                 "https://w3id.org/security/suites/bls12381-2020/v1",
	"JsonWebKey2020":                    "https://w3id.org/security/suites/jws-2020/v1",
	"EcdsaSecp256k1VerificationKey2019": "https://w3id.org/security/suites/secp256k1-2019/v1",
	"Ed25519VerificationKey2018":        "https://w3id.org/security/suites/ed25519-2018/v1",
	"Ed25519VerificationKey2020":        "https://w3id.org/security/suites/ed25519-2020/v1",
	"X25519KeyAgreementKey2019":         "https://w3id.org/security/suites/x25519-2019/v1",
}

var c19Purposes = []string{"authentication", "assertionMethod", "keyAgreement", "capabilityDelegation", "capabilityInvocation"}

type c19Opts struct {
	base      bool
	methodCtx []string
	incPub    bool
	incUnpub  bool
	keyCtx    bool // custom key-context map (WithKeyContext)
}

// c19CustomKeyCtx maps every key type to a context of its own.
var c19CustomKeyCtx = func() map[string]string {
	m := map[string]string{}
	for t := range c19KeyCtx {
		m[t] = "https://ctx.example/custom/" + t
	}
	return m
}()

// refProject is the independent projection of an internal document to the external DID document.
func refProject(internal doc.Doc, did string, o c19Opts) map[string]interface{} {
	ext := map[string]interface{}{}
	ctx := []interface{}{"https://www.w3.org/ns/did/v1"}
	for _, c := range o.methodCtx {
		ctx = append(ctx, c)
	}
	if o.base {
		ctx = append(ctx, map[string]interface{}{"@base": did})
	}
	objID := func(id string) string {
		if o.base {
			return "#" + id
		}
		return did + "#" + id
	}
	ext["id"] = did
	if aka, ok := internal["alsoKnownAs"].([]interface{}); ok && len(aka) > 0 {
		ext["alsoKnownAs"] = aka
	}
	rel := map[string][]interface{}{}
	var vms []interface{}
	var keyCtx []string
	if keys, ok := internal["publicKey"].([]interface{}); ok {
		for _, k := range keys {
			km, ok := k.(map[string]interface{})
			if !ok {
				continue
			}
			id, _ := km["id"].(string)
			typ, _ := km["type"].(string)
			vm := map[string]interface{}{"id": objID(id), "type": typ, "controller": did}
			if jwk, ok := km["publicKeyJwk"].(map[string]interface{}); ok {
				switch typ {
				case "Ed25519VerificationKey2018":
					x, _ := jwk["x"].(string)
					vm["publicKeyBase58"] = base58(b64d(x))
				case "Ed25519VerificationKey2020":
					x, _ := jwk["x"].(string)
					vm["publicKeyMultibase"] = "z" + base58(b64d(x))
				default:
					vm["publicKeyJwk"] = jwk
				}
			} else if b, ok := km["publicKeyBase58"].(string); ok && b != "" {
				vm["publicKeyBase58"] = b
			} else if _, has := km["publicKeyMultibase"]; !has {
				vm["publicKeyJwk"] = nil // no key material: the library represents this as a null JWK (absent would be as good)
			}
			vms = append(vms, vm)
			c := c19KeyCtx[typ]
			if o.keyCtx {
				c = c19CustomKeyCtx[typ]
			}
			dup := false
			for _, e := range keyCtx {
				if e == c {
					dup = true
				}
			}
			if !dup {
				keyCtx = append(keyCtx, c)
			}
			if ps, ok := km["purposes"].([]interface{}); ok {
				for _, p := range ps {
					if s, ok := p.(string); ok {
						rel[s] = append(rel[s], objID(id))
					}
				}
			}
		}
	}
	if len(vms) > 0 {
		ext["verificationMethod"] = vms
		for _, c := range keyCtx {
			ctx = append(ctx, c)
		}
	}
	for _, p := range c19Purposes {
		if len(rel[p]) > 0 {
			ext[p] = rel[p]
		}
	}
	if svcs, ok := internal["service"].([]interface{}); ok {
		var out []interface{}
		for _, s := range svcs {
			sm, ok := s.(map[string]interface{})
			if !ok {
				continue
			}
			e := map[string]interface{}{}
			for k, v := range sm {
				e[k] = v
			}
			id, _ := sm["id"].(string)
			e["id"] = objID(id)
			out = append(out, e)
		}
		if len(out) > 0 {
			ext["service"] = out
		}
	}
	ext["@context"] = ctx
	return ext
}

func canonOf(v interface{}) string {
	b, err := json.Marshal(v)
	if err != nil {
		return "<marshal error: " + err.Error() + ">"
	}
	c, err := jcs.CanonicalBytes(b)
	if err != nil {
		return "<canon error: " + err.Error() + ">"
	}
	return string(c)
}

func c19KeyVariants(ver *fx.Version) []map[string]interface{} {
	ed, p256, k1 := fx.NewKey(fx.Ed25519, "c19/ed"), fx.NewKey(fx.P256, "c19/p"), fx.NewKey(fx.Secp256k1, "c19/k")
	jwkOf := func(k *fx.Key) map[string]interface{} {
		m := map[string]interface{}{"kty": k.JWK.Kty, "crv": k.JWK.Crv, "x": k.JWK.X}
		if k.JWK.Y != "" {
			m["y"] = k.JWK.Y
		}
		return m
	}
	types := []string{"Bls12381G2Key2020", "JsonWebKey2020", "EcdsaSecp256k1VerificationKey2019", "X25519KeyAgreementKey2019", "Ed25519VerificationKey2018", "Ed25519VerificationKey2020"}
	mats := []func(m map[string]interface{}){
		func(m map[string]interface{}) { m["publicKeyJwk"] = jwkOf(ed) },
		func(m map[string]interface{}) { m["publicKeyJwk"] = jwkOf(p256) },
		func(m map[string]interface{}) { m["publicKeyJwk"] = jwkOf(k1) },
		func(m map[string]interface{}) { m["publicKeyBase58"] = base58(b64d(ed.JWK.X)) },
	}
	purposeSets := [][]interface{}{nil, {"authentication"}, {"assertionMethod"}, {"keyAgreement"}, {"capabilityDelegation"}, {"capabilityInvocation"}, {"authentication", "assertionMethod"},
		{"authentication", "assertionMethod", "keyAgreement", "capabilityDelegation", "capabilityInvocation"}}
	var out []map[string]interface{}
	n := 0
	for _, t := range types {
		for mi, mat := range mats {
			for _, ps := range purposeSets {
				n++
				e := map[string]interface{}{"id": fmt.Sprintf("key%d", n), "type": t}
				mat(e)
				if ps != nil {
					e["purposes"] = ps
				}
				// Ed25519 types with a non-Ed25519 JWK cannot be re-encoded; keep only meaningful combinations
				if (t == "Ed25519VerificationKey2018" || t == "Ed25519VerificationKey2020") && (mi == 1 || mi == 2) {
					continue
				}
				var pp patch.Patch
				_ = json.Unmarshal(mustJSON(map[string]interface{}{"action": "add-public-keys", "publicKeys": []interface{}{e}}), &pp)
				if ver.Parser.ValidateDelta(&model.DeltaModel{UpdateCommitment: fx.Commit(ed, fx.SHA256), Patches: []patch.Patch{pp}}) != nil {
					continue
				}
				out = append(out, e)
			}
		}
	}
	return out
}

func c19(r *hx.Run) {
	fx.Quiet()
	r.Rule = "(handler configurations: create responses and long-form resolution under every combination of label, domain and namespace alias, ids per the rule documented in the handler; GetHint) (the generic doctransformer is run on the same jobs with plain options: document == internal document + id, same metadata, missing id refused) internal documents built from every validator-accepted key variant (6 key types x {Ed25519/P-256/secp256k1 JWK, base58} x 8 purpose sets), all ordered pairs of a 24-variant subset (thorough: triples of 10), a key repeating one purpose 2..5 times next to a key with each single purpose in both orders, service variants (string/list/object endpoint x extra members) singly and in pairs, documents with 3..33 keys / services / aliases, alias lists, foreign members; resolution models over commitments {both, recovery only, none} x deactivated x anchor origin {nil, string, object} x version id x times x references; transformer options base x method context list (0, 1, 2, 4 entries) x operation lists x {default, custom} key-context map; TransformDocument on the real transformer must equal the independent projection, also after the same transformer instance has transformed another document (results do not share state), (own base58/multibase) and metadata computed from the model; the same relation through DocumentHandler.ResolveDocument for published and unpublished DIDs. Non-trivial: every distinct (document, model, options) triple."
	ver := fx.NewVersion(fx.DefaultProtocol(), nil)
	keyVars := c19KeyVariants(ver)
	r.Extra["key_variants"] = len(keyVars)
	svcVars := []map[string]interface{}{
		{"id": "svc1", "type": "T1", "serviceEndpoint": "https://example.com/1"},
		{"id": "svc2", "type": "T2", "serviceEndpoint": []interface{}{"https://example.com/2a", "https://example.com/2b"}},
		{"id": "svc3", "type": "T3", "serviceEndpoint": map[string]interface{}{"uri": "https://example.com/3", "routingKeys": []interface{}{"k"}}},
		{"id": "svc4", "type": "T4", "serviceEndpoint": "https://example.com/4", "extra1": map[string]interface{}{"a": []interface{}{1.0}}, "priority": 1.0},
		{"id": "svc5", "type": "T5", "serviceEndpoint": []interface{}{map[string]interface{}{"uri": "https://example.com/5"}}, "recipientKeys": []interface{}{"x"}, "controller": "y"},
	}
	type docCase struct {
		name string
		d    doc.Doc
	}
	var docs []docCase
	clone := func(m map[string]interface{}, id string) map[string]interface{} {
		c := doc.Clone(m).(map[string]interface{})
		if id != "" {
			c["id"] = id
		}
		return c
	}
	docs = append(docs, docCase{"empty", doc.Doc{}})
	for i, k := range keyVars {
		docs = append(docs, docCase{fmt.Sprintf("key%d", i), doc.Doc{"publicKey": []interface{}{clone(k, "")}}})
	}
	var sub []map[string]interface{}
	for i := 0; i < len(keyVars); i += (len(keyVars) + 23) / 24 {
		sub = append(sub, keyVars[i])
	}
	for i, a := range sub {
		for j, b := range sub {
			docs = append(docs, docCase{fmt.Sprintf("keys%d,%d", i, j), doc.Doc{"publicKey": []interface{}{clone(a, "ka"), clone(b, "kb")}, "service": []interface{}{clone(svcVars[0], "")}}})
		}
	}
	// a key WITHOUT key material (not producible by accepted operations, but a legal input of the transformer): it is listed with an
	// absent / null JWK wherever it stands - never with a neighbour's material
	{
		bare := func(id string) map[string]interface{} {
			return map[string]interface{}{"id": id, "type": "JsonWebKey2020", "purposes": []interface{}{"authentication"}}
		}
		withMat := []map[string]interface{}{keyVars[0], keyVars[len(keyVars)/2], keyVars[len(keyVars)-1]}
		docs = append(docs, docCase{"bare-key|alone", doc.Doc{"publicKey": []interface{}{bare("kb")}}})
		for i, k := range withMat {
			docs = append(docs,
				docCase{fmt.Sprintf("bare-key|after|%d", i), doc.Doc{"publicKey": []interface{}{clone(k, "ka"), bare("kb")}}},
				docCase{fmt.Sprintf("bare-key|before|%d", i), doc.Doc{"publicKey": []interface{}{bare("kb"), clone(k, "ka")}}},
				docCase{fmt.Sprintf("bare-key|between|%d", i), doc.Doc{"publicKey": []interface{}{clone(k, "ka"), bare("kb"), clone(withMat[(i+1)%3], "kc"), bare("kd")}}})
		}
	}
	// purpose multiplicity: a purpose may be repeated in a key's list (the validator only limits the list to five allowed
	// entries); one key repeats a purpose 2..5 times - more often than the document has keys - next to a key with any one
	// purpose, in both orders: every reference appears in its own section, as often as named
	{
		base := keyVars[0]
		for _, kv := range keyVars {
			if kv["type"] == "JsonWebKey2020" {
				base = kv
				break
			}
		}
		accepted := 0
		for pi, p := range c19Purposes {
			for m := 2; m <= 5; m++ {
				rep := make([]interface{}, m)
				for x := range rep {
					rep[x] = p
				}
				a := clone(base, "ka")
				a["purposes"] = rep
				var pp patch.Patch
				_ = json.Unmarshal(mustJSON(map[string]interface{}{"action": "add-public-keys", "publicKeys": []interface{}{a}}), &pp)
				if ver.Parser.ValidateDelta(&model.DeltaModel{UpdateCommitment: fx.Commit(fx.NewKey(fx.Ed25519, "c19/ed"), fx.SHA256), Patches: []patch.Patch{pp}}) != nil {
					continue
				}
				accepted++
				for qi, q := range c19Purposes {
					b := clone(base, "kb")
					b["purposes"] = []interface{}{q}
					docs = append(docs, docCase{fmt.Sprintf("purpose-multiplicity|%d|x%d|%d|ab", pi, m, qi), doc.Doc{"publicKey": []interface{}{a, b}}},
						docCase{fmt.Sprintf("purpose-multiplicity|%d|x%d|%d|ba", pi, m, qi), doc.Doc{"publicKey": []interface{}{b, a}}})
				}
			}
		}
		r.Extra["purpose_multiplicity_lists_accepted_by_the_validator"] = accepted
	}
	if r.Tier == "thorough" {
		s10 := sub[:10]
		for i, a := range s10 {
			for j, b := range s10 {
				for k, c := range s10 {
					docs = append(docs, docCase{fmt.Sprintf("keys%d,%d,%d", i, j, k), doc.Doc{"publicKey": []interface{}{clone(a, "ka"), clone(b, "kb"), clone(c, "kc")}}})
				}
			}
		}
	}
	for i, s := range svcVars {
		docs = append(docs, docCase{fmt.Sprintf("svc%d", i), doc.Doc{"service": []interface{}{clone(s, "")}}})
		for j, t := range svcVars {
			docs = append(docs, docCase{fmt.Sprintf("svcs%d,%d", i, j), doc.Doc{"service": []interface{}{clone(s, "sa"), clone(t, "sb")}, "publicKey": []interface{}{clone(keyVars[0], "")}}})
		}
	}
	// larger documents: n keys rotating over all accepted variants and n services (slice growth, context / relationship de-duplication)
	for _, n := range []int{3, 4, 5, 8, 9, 16, 17, 33} {
		var ks, ss, as []interface{}
		for i := 0; i < n; i++ {
			ks = append(ks, clone(keyVars[(i*7+n)%len(keyVars)], fmt.Sprintf("k%d", i)))
			ss = append(ss, clone(svcVars[(i*3+n)%len(svcVars)], fmt.Sprintf("s%d", i)))
			as = append(as, fmt.Sprintf("https://aka%d.example", i))
		}
		docs = append(docs, docCase{fmt.Sprintf("sized%d", n), doc.Doc{"publicKey": ks, "service": ss, "alsoKnownAs": as}})
	}
	for i, aka := range [][]interface{}{{"https://a.example"}, {"https://a.example", "did:example:123"}} {
		docs = append(docs, docCase{fmt.Sprintf("aka%d", i), doc.Doc{"alsoKnownAs": aka, "publicKey": []interface{}{clone(keyVars[1], "")}, "service": []interface{}{clone(svcVars[3], "")}, "foreign": map[string]interface{}{"x": 1.0}}})
	}
	type rmCase struct {
		name string
		rm   protocol.ResolutionModel
	}
	var rms []rmCase
	origins := []interface{}{nil, "origin", map[string]interface{}{"o": []interface{}{1.0}}}
	for ci, cm := range [][2]string{{"EiUpd", "EiRec"}, {"", "EiRec"}, {"", ""}} {
		for _, deact := range []bool{false, true} {
			for oi, org := range origins {
				for _, vid := range []string{"", "ref-9"} {
					for _, tm := range [][2]uint64{{0, 0}, {1600000000, 1700000000}, {1600000000, 1600000000}, {1600000000, 1500000000}, {1600000000, 0}, {0, 5}} {
						for ri, refs := range [][]string{nil, {"e1"}, {"e1", "e2"}} {
							if r.Tier == "quick" && (oi+ri+ci)%2 == 1 && !(oi == 1 && ri == 1) {
								continue
							}
							canon := ""
							if refs != nil {
								canon = "canon-1"
							}
							rms = append(rms, rmCase{fmt.Sprintf("c%d|d%v|o%d|v%s|t%d|r%d", ci, deact, oi, vid, tm[0], ri), protocol.ResolutionModel{
								UpdateCommitment: cm[0], RecoveryCommitment: cm[1], Deactivated: deact, AnchorOrigin: org, VersionID: vid, CreatedTime: tm[0], UpdatedTime: tm[1],
								CanonicalReference: canon, EquivalentReferences: refs,
								PublishedOperations:   []*operation.AnchoredOperation{{Type: operation.TypeCreate, TransactionTime: 2, TransactionNumber: 1, CanonicalReference: "p2"}, {Type: operation.TypeUpdate, TransactionTime: 1, TransactionNumber: 5, CanonicalReference: "p1"}},
								UnpublishedOperations: []*operation.AnchoredOperation{{Type: operation.TypeUpdate, TransactionTime: 9}}}})
						}
					}
				}
			}
		}
	}
	var optsList []c19Opts
	for _, base := range []bool{false, true} {
		for _, mc := range [][]string{nil, {"https://method.example/ctx/v1"}, {"https://method.example/ctx/v1", "https://method.example/ctx/v2"},
			{"https://m.example/1", "https://m.example/2", "https://m.example/3", "https://m.example/4"}} {
			for _, ip := range []bool{false, true} {
				for _, iu := range []bool{false, true} {
					optsList = append(optsList, c19Opts{base, mc, ip, iu, false})
					if ip == iu { // the custom key-context map with half of the option sets
						optsList = append(optsList, c19Opts{base, mc, ip, iu, true})
					}
				}
			}
		}
	}
	const ns = "did:sidetree"
	suffix := "EiSuffix123"
	// documents x (reduced models) and models x (reduced documents): two complete slices of the product
	type job struct {
		d  docCase
		rm rmCase
		o  c19Opts
		pi int // published / unpublished info
	}
	var jobs []job
	for _, d := range docs {
		for _, o := range optsList {
			for pi := 0; pi < 2; pi++ {
				jobs = append(jobs, job{d, rms[(len(jobs))%len(rms)], o, pi})
			}
		}
	}
	for _, rm := range rms {
		for _, o := range optsList {
			for pi := 0; pi < 2; pi++ {
				for di := 0; di < len(docs); di += len(docs)/5 + 1 {
					jobs = append(jobs, job{docs[di], rm, o, pi})
				}
			}
		}
	}
	r.Extra["documents"] = len(docs)
	r.Extra["resolution_models"] = len(rms)
	r.Extra["option_sets"] = len(optsList)
	hx.ParallelFor(len(jobs), func(ji int) {
		j := jobs[ji]
		caseID := fmt.Sprintf("%s|%s|base=%v|mctx=%d|pub=%v|unpub=%v|kctx=%v|info=%d", j.d.name, j.rm.name, j.o.base, len(j.o.methodCtx), j.o.incPub, j.o.incUnpub, j.o.keyCtx, j.pi)
		if !r.Want(caseID) {
			return
		}
		rm := j.rm.rm
		rm.Doc = document.Document(doc.Clone(j.d.d).(doc.Doc))
		before := canonOf(rm.Doc)
		var info protocol.TransformationInfo
		did := ns + ":" + suffix
		if j.pi == 0 {
			info = dochandler.GetTransformationInfoForPublished(ns, did, suffix, &rm)
		} else {
			info = dochandler.GetTransformationInfoForUnpublished(ns, "domain.example", "label", suffix, "")
			did = ns + ":label:" + suffix
		}
		var topts []didtransformer.Option
		topts = append(topts, didtransformer.WithBase(j.o.base), didtransformer.WithIncludePublishedOperations(j.o.incPub), didtransformer.WithIncludeUnpublishedOperations(j.o.incUnpub))
		if j.o.methodCtx != nil {
			topts = append(topts, didtransformer.WithMethodContext(j.o.methodCtx))
		}
		if j.o.keyCtx {
			topts = append(topts, didtransformer.WithKeyContext(c19CustomKeyCtx))
		}
		var res *document.ResolutionResult
		var err error
		func() {
			defer func() {
				if p := recover(); p != nil {
					err = fmt.Errorf("panic: %v", p)
					r.Violation("panic:TransformDocument", caseID, fmt.Sprint(p), nil)
				}
			}()
			tr := didtransformer.New(topts...)
			res, err = tr.TransformDocument(&rm, info)
			if err == nil {
				// a second transformation by the same transformer (another document, another DID) must leave the first result alone
				first := canonOf(res.Document)
				firstMD := canonOf(doc.Plain(res.DocumentMetadata))
				other := jobs[(ji*31+7)%len(jobs)]
				rm2 := other.rm.rm
				rm2.Doc = document.Document(doc.Clone(other.d.d).(doc.Doc))
				info2 := dochandler.GetTransformationInfoForPublished(ns, ns+":EiOtherSuffix", "EiOtherSuffix", &rm2)
				if res2, err2 := tr.TransformDocument(&rm2, info2); err2 == nil {
					// the second result is as good as a first one: nothing carried over from the earlier transformation
					if want2 := refProject(other.d.d, ns+":EiOtherSuffix", j.o); canonOf(res2.Document) != canonOf(want2) {
						r.Violation("second-transformation-differs:"+c19DiffKeys(res2.Document, want2), caseID, fmt.Sprintf("document %s transformed after %s by the same transformer\n  impl: %s\n  ref : %s", other.d.name, j.d.name, hx.Trunc(canonOf(res2.Document), 500), hx.Trunc(canonOf(want2), 500)), nil)
					}
				}
				if canonOf(res.Document) != first || canonOf(doc.Plain(res.DocumentMetadata)) != firstMD {
					r.Violation("result-changed-by-later-transformation", caseID, fmt.Sprintf("the result of the first transformation changed after the same transformer processed %s\n  before: %s\n  after : %s", other.d.name, hx.Trunc(first, 400), hx.Trunc(canonOf(res.Document), 400)), nil)
				}
			}
		}()
		r.Eval()
		r.State()
		r.Trans(1)
		r.Trace(1)
		r.Nontrivial(caseID)
		fail := func(class, msg string) {
			r.Violation(class, caseID, fmt.Sprintf("document %s, model %s, options %+v, info %d: %s", hx.Trunc(before, 300), j.rm.name, j.o, j.pi, msg), map[string]interface{}{"document": j.d.d, "model": j.rm.name})
		}
		if err != nil {
			fail("transform-error", err.Error())
			return
		}
		if canonOf(rm.Doc) != before {
			fail("input-document-modified", "rm.Doc changed to "+hx.Trunc(canonOf(rm.Doc), 300))
		}
		want := refProject(j.d.d, did, j.o)
		got := canonOf(res.Document)
		if got != canonOf(want) {
			fail("document-projection:"+c19DiffKeys(res.Document, want), fmt.Sprintf("\n  impl: %s\n  ref : %s", hx.Trunc(got, 700), hx.Trunc(canonOf(want), 700)))
		}
		if _, has := res.Document["publicKey"]; has {
			fail("publicKey-leaks", "external document carries the internal publicKey section")
		}
		checkMD := func(tag string, documentMetadata interface{}) {
			// metadata
			md := map[string]interface{}{}
			method := map[string]interface{}{"published": j.pi == 0}
			if rm.RecoveryCommitment != "" {
				method["recoveryCommitment"] = rm.RecoveryCommitment
			}
			if rm.UpdateCommitment != "" {
				method["updateCommitment"] = rm.UpdateCommitment
			}
			if rm.AnchorOrigin != nil {
				method["anchorOrigin"] = rm.AnchorOrigin
			}
			md["method"] = method
			if rm.Deactivated {
				md["deactivated"] = true
			}
			if j.pi == 0 {
				canonicalID := ns + ":" + suffix
				if rm.CanonicalReference != "" {
					canonicalID = ns + ":" + rm.CanonicalReference + ":" + suffix
				}
				md["canonicalId"] = canonicalID
				eq := []interface{}{canonicalID}
				for _, e := range rm.EquivalentReferences {
					eq = append(eq, ns+":"+e+":"+suffix)
				}
				md["equivalentId"] = eq
				md["created"] = time.Unix(int64(rm.CreatedTime), 0).UTC().Format(time.RFC3339)
			} else {
				md["equivalentId"] = []interface{}{ns + ":domain.example:label:" + suffix}
			}
			if rm.VersionID != "" {
				md["versionId"] = rm.VersionID
				if rm.UpdatedTime > 0 {
					md["updated"] = time.Unix(int64(rm.UpdatedTime), 0).UTC().Format(time.RFC3339)
				}
			}
			gotMD := doc.Plain(documentMetadata).(map[string]interface{})
			gm, _ := gotMD["method"].(map[string]interface{})
			var pubOrder, unpubN string
			if gm != nil {
				if l, ok := gm["publishedOperations"].([]interface{}); ok {
					var ks []string
					for _, e := range l {
						ks = append(ks, fmt.Sprint(e.(map[string]interface{})["canonicalReference"]))
					}
					pubOrder = strings.Join(ks, ",")
					delete(gm, "publishedOperations")
				}
				if l, ok := gm["unpublishedOperations"].([]interface{}); ok {
					unpubN = fmt.Sprint(len(l))
					delete(gm, "unpublishedOperations")
				}
			}
			if canonOf(gotMD) != canonOf(md) {
				fail(tag+"metadata:"+c19DiffKeys(gotMD, md), fmt.Sprintf("\n  impl: %s\n  ref : %s", hx.Trunc(canonOf(gotMD), 600), hx.Trunc(canonOf(md), 600)))
			}
			wantPub, wantUnpub := "", ""
			if j.o.incPub {
				wantPub = "p1,p2"
			}
			if j.o.incUnpub {
				wantUnpub = "1"
			}
			if pubOrder != wantPub || unpubN != wantUnpub {
				fail(tag+"metadata-operation-lists", fmt.Sprintf("published list %q (want %q), unpublished count %q (want %q)", pubOrder, wantPub, unpubN, wantUnpub))
			}
		}
		checkMD("", res.DocumentMetadata)
		// the generic (non-DID) transformer: the internal document with its id, the same metadata
		if !j.o.base && j.o.methodCtx == nil {
			rm2 := j.rm.rm
			rm2.Doc = document.Document(doc.Clone(j.d.d).(doc.Doc))
			gres, gerr := doctransformer.New(doctransformer.WithIncludePublishedOperations(j.o.incPub), doctransformer.WithIncludeUnpublishedOperations(j.o.incUnpub)).TransformDocument(&rm2, info)
			r.Eval()
			if gerr != nil {
				fail("generic-transform-error", gerr.Error())
			} else {
				wantDoc := doc.Clone(j.d.d).(doc.Doc)
				wantDoc["id"] = info[document.IDProperty]
				if canonOf(gres.Document) != canonOf(wantDoc) {
					fail("generic-document:"+c19DiffKeys(gres.Document, wantDoc), fmt.Sprintf("\n  impl: %s\n  ref : %s", hx.Trunc(canonOf(gres.Document), 500), hx.Trunc(canonOf(wantDoc), 500)))
				}
				checkMD("generic-", gres.DocumentMetadata)
			}
			noID := protocol.TransformationInfo{}
			for k, v := range info {
				if k != document.IDProperty {
					noID[k] = v
				}
			}
			if _, e := doctransformer.New().TransformDocument(&rm2, noID); e == nil {
				fail("generic-missing-id-accepted", "transformation without an id succeeded")
			}
		}
		if ji%499 == 0 {
			r.Sample(map[string]interface{}{"case": caseID, "external": hx.Trunc(got, 300)})
		}
	})

	// through the document handler: published and unpublished DIDs
	c19Handler(r)
	c19HandlerConfigs(r)
	r.Assumptions = append(r.Assumptions,
		"the product documents x models x options is covered by two complete slices (every document with every option set and a rotating model; every model with every option set and 5 documents), not the full cube",
		"Ed25519VerificationKey2018/2020 are only combined with Ed25519 JWKs or base58 material (other JWKs cannot be re-encoded)",
		"operation lists in metadata are compared by order of canonical references and by count")
}

func c19DiffKeys(a, b map[string]interface{}) string {
	set := map[string]bool{}
	for k, v := range a {
		if canonOf(v) != canonOf(b[k]) {
			set[k] = true
		}
	}
	for k := range b {
		if _, ok := a[k]; !ok {
			set[k] = true
		}
	}
	var ks []string
	for k := range set {
		ks = append(ks, k)
	}
	sort.Strings(ks)
	return strings.Join(ks, ",")
}

func c19Handler(r *hx.Run) {
	const ns = "did:sidetree"
	pool := fx.NewPool(fx.Ed25519, fx.SHA256, "ok")
	ver := fx.NewVersion(fx.DefaultProtocol(), nil)
	client := fx.NewClient(ver)
	hists := [][]fx.Placed{
		{{Op: pool.Get("C"), Time: 10, Num: 0, Published: true}},
		{{Op: pool.Get("C"), Time: 10, Num: 0, Published: true}, {Op: pool.Get("U01"), Time: 11, Num: 0, Published: true}},
		{{Op: pool.Get("C"), Time: 10, Num: 0, Published: true}, {Op: pool.Get("R01"), Time: 11, Num: 0, Published: true}, {Op: pool.Get("V01"), Time: 12, Num: 1, Published: true}},
		{{Op: pool.Get("C"), Time: 10, Num: 0, Published: true}, {Op: pool.Get("D0"), Time: 11, Num: 0, Published: true}},
		{{Op: pool.Get("C"), Time: 10, Num: 0, Published: false}},
		{{Op: pool.Get("C"), Time: 10, Num: 0, Published: false}, {Op: pool.Get("U01"), Time: 11, Num: 0, Published: false}},
		{{Op: pool.Get("C"), Time: 10, Num: 0, Published: true}, {Op: pool.Get("U01"), Time: 11, Num: 0, Published: false}},
	}
	for hi, h := range hists {
		caseID := fmt.Sprintf("handler|%d", hi)
		if !r.Want(caseID) {
			continue
		}
		var pub fx.SliceStore
		var unpub unpubStore
		for _, pl := range h {
			if pl.Published {
				pub = append(pub, pl.Anchored(pool.Suffix))
			} else {
				unpub = append(unpub, pl.Anchored(pool.Suffix))
			}
		}
		var popts []processor.Option
		if len(unpub) > 0 {
			popts = append(popts, processor.WithUnpublishedOperationStore(unpub))
		}
		proc := processor.New("verif", pub, client, popts...)
		h2 := dochandler.New(ns, nil, client, &recWriter{}, proc, fx.Metrics)
		res, err := h2.ResolveDocument(ns + ":" + pool.Suffix)
		r.Eval()
		r.State()
		r.Nontrivial(caseID)
		if err != nil {
			r.Violation("handler-resolve-error", caseID, err.Error(), nil)
			continue
		}
		rm, _ := proc.Resolve(pool.Suffix)
		want := refProject(doc.Plain(map[string]interface{}(rm.Doc)).(map[string]interface{}), ns+":"+pool.Suffix, c19Opts{})
		if canonOf(res.Document) != canonOf(want) {
			r.Violation("handler-document-projection", caseID, fmt.Sprintf("history %v\n  impl: %s\n  ref : %s", placedDesc(h), hx.Trunc(canonOf(res.Document), 600), hx.Trunc(canonOf(want), 600)), nil)
		}
		md := doc.Plain(res.DocumentMetadata).(map[string]interface{})
		method, _ := md["method"].(map[string]interface{})
		wantPublished := len(pub) > 0
		if method["published"] != wantPublished {
			r.Violation("handler-published-flag", caseID, fmt.Sprintf("history %v: published=%v, want %v", placedDesc(h), method["published"], wantPublished), nil)
		}
		if fmt.Sprint(method["updateCommitment"]) != fmt.Sprint(nilIfEmpty(rm.UpdateCommitment)) || fmt.Sprint(method["recoveryCommitment"]) != fmt.Sprint(nilIfEmpty(rm.RecoveryCommitment)) {
			r.Violation("handler-commitments", caseID, "metadata commitments differ from the resolution model", nil)
		}
		if wantPublished {
			wantCanon := ns + ":" + rm.CanonicalReference + ":" + pool.Suffix
			if md["canonicalId"] != wantCanon {
				r.Violation("handler-canonical-id", caseID, fmt.Sprintf("canonicalId %v, want %s", md["canonicalId"], wantCanon), nil)
			}
		}
		if (md["deactivated"] == true) != rm.Deactivated {
			r.Violation("handler-deactivated-flag", caseID, "deactivated flag differs", nil)
		}
	}
}

// c19HandlerConfigs drives create responses and long-form resolution through handlers configured with every combination
// of label, domain and namespace alias. The expected ids follow the rule documented in the handler: an unpublished document
// is identified by <ns>[:<label>]:<suffix>[:<initial state>]; a long-form result lists its short form as equivalent id; with
// label and domain the domain-hinted id <ns>:<domain>:<label>:<suffix> is an equivalent id.
func c19HandlerConfigs(r *hx.Run) {
	const ns, alias = "did:sidetree", "did:alias"
	pool := fx.NewPool(fx.Ed25519, fx.SHA256, "ok")
	ver := fx.NewVersion(fx.DefaultProtocol(), nil)
	client := fx.NewClient(ver)
	createReq := pool.Get("C").Req
	ct := fx.MustJSON(string(createReq)).(map[string]interface{})
	delete(ct, "type")
	initial := fx.B64(jcs.MustCanon(ct))
	// the internal document of the create, through the real processor over a store holding only the create
	rm0, err := ResolveImpl(client, pool.Suffix, []fx.Placed{{Op: pool.Get("C"), Time: 10, Num: 0, Published: true}})
	if err != nil {
		panic(err)
	}
	internal := doc.Plain(map[string]interface{}(rm0.Doc)).(map[string]interface{})
	for _, label := range []string{"", "lbl"} {
		for _, domain := range []string{"", "dom.example"} {
			for _, withAlias := range []bool{false, true} {
				var aliases []string
				if withAlias {
					aliases = []string{alias}
				}
				proc := processor.New("verif", fx.SliceStore(nil), client)
				h := dochandler.New(ns, aliases, client, &recWriter{}, proc, fx.Metrics, dochandler.WithDomain(domain), dochandler.WithLabel(label))
				shortID := ns + ":" + pool.Suffix
				if label != "" {
					shortID = ns + ":" + label + ":" + pool.Suffix
				}
				var hinted []interface{}
				if label != "" && domain != "" {
					hinted = []interface{}{ns + ":" + domain + ":" + label + ":" + pool.Suffix}
				}
				check := func(caseID string, res *document.ResolutionResult, err error, wantID string, wantEq []interface{}) {
					r.Eval()
					r.State()
					r.Nontrivial(caseID)
					if err != nil {
						r.Violation("handler-config-error", caseID, err.Error(), nil)
						return
					}
					want := refProject(internal, wantID, c19Opts{})
					if canonOf(res.Document) != canonOf(want) {
						r.Violation("handler-config-document:"+c19DiffKeys(res.Document, want), caseID, fmt.Sprintf("label=%q domain=%q\n  impl: %s\n  ref : %s", label, domain, hx.Trunc(canonOf(res.Document), 500), hx.Trunc(canonOf(want), 500)), nil)
					}
					md := doc.Plain(res.DocumentMetadata).(map[string]interface{})
					method, _ := md["method"].(map[string]interface{})
					if method["published"] != false || md["canonicalId"] != nil {
						r.Violation("handler-config-published", caseID, fmt.Sprintf("unpublished result reports published=%v canonicalId=%v", method["published"], md["canonicalId"]), nil)
					}
					var gotEq []interface{}
					if l, ok := md["equivalentId"].([]interface{}); ok {
						gotEq = l
					}
					if canonOf(gotEq) != canonOf(wantEq) && !(len(gotEq) == 0 && len(wantEq) == 0) {
						r.Violation("handler-config-equivalent-id", caseID, fmt.Sprintf("label=%q domain=%q: equivalentId %v, want %v", label, domain, gotEq, wantEq), nil)
					}
					if fmt.Sprint(method["updateCommitment"]) != rm0.UpdateCommitment || fmt.Sprint(method["recoveryCommitment"]) != rm0.RecoveryCommitment {
						r.Violation("handler-config-commitments", caseID, "commitments differ from the create's", nil)
					}
				}
				tag := fmt.Sprintf("handler-config|label=%s|domain=%s|alias=%v|", label, domain, withAlias)
				if id := tag + "create-response"; r.Want(id) {
					res, err := h.ProcessOperation(createReq, 0)
					check(id, res, err, shortID, hinted)
				}
				if id := tag + "long-form"; r.Want(id) {
					res, err := h.ResolveDocument(ns + ":" + pool.Suffix + ":" + initial)
					check(id, res, err, shortID+":"+initial, append([]interface{}{shortID}, hinted...))
				}
				if withAlias {
					// the alias names the same namespace: a DID under it resolves exactly when the DID under the namespace does
					if id := tag + "alias-long-form"; r.Want(id) {
						res, err := h.ResolveDocument(alias + ":" + pool.Suffix + ":" + initial)
						r.Eval()
						r.Nontrivial(id)
						if err != nil || res == nil {
							r.Violation("handler-config-alias", id, fmt.Sprintf("long-form DID under the configured alias does not resolve: %v", err), nil)
						} else if rid, _ := res.Document["id"].(string); canonOf(res.Document) != canonOf(refProject(internal, rid, c19Opts{})) {
							r.Violation("handler-config-alias-document", id, "document resolved under the alias is not the projection of the create's document under its own id", nil)
						}
					}
				} else if id := tag + "unknown-namespace"; r.Want(id) {
					if _, err := h.ResolveDocument(alias + ":" + pool.Suffix + ":" + initial); err == nil {
						r.Violation("handler-config-foreign-namespace-accepted", id, "a DID under an unconfigured namespace resolves", nil)
					}
					r.Eval()
				}
			}
		}
	}
	// GetHint: the text between namespace and suffix
	for _, hint := range []string{"", "h", "dom.example:lbl", "a:b:c"} {
		id := ns + ":" + pool.Suffix
		if hint != "" {
			id = ns + ":" + hint + ":" + pool.Suffix
		}
		got, err := dochandler.GetHint(id, ns, pool.Suffix)
		r.Eval()
		if err != nil || got != hint {
			r.Violation("get-hint", "hint|"+hint, fmt.Sprintf("GetHint(%s) = %q, %v; want %q", id, got, err, hint), nil)
		}
	}
	if _, err := dochandler.GetHint(ns+":other", ns, pool.Suffix); err == nil {
		r.Violation("get-hint", "hint|missing-suffix", "GetHint accepts an id that does not contain the suffix", nil)
	}
}

func nilIfEmpty(s string) interface{} {
	if s == "" {
		return nil
	}
	return s
}
