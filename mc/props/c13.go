package props

import (
	"encoding/json"
	"fmt"
	"sort"
	"strings"

	"github.com/trustbloc/sidetree-core-go/pkg/api/operation"
	"github.com/trustbloc/sidetree-core-go/pkg/api/protocol"
	"github.com/trustbloc/sidetree-core-go/pkg/api/txn"
	"github.com/trustbloc/sidetree-core-go/pkg/versions/1_0/operationparser"
	"github.com/trustbloc/sidetree-core-go/pkg/versions/1_0/txnprovider"

	"verif/mc/fx"
	"verif/mc/hx"
	"verif/mc/ref/jcs"
)

func init() { register("C13", c13) }

type expiryValidator struct{}

func (expiryValidator) Validate(from, _ int64) error {
	if from == fx.ExpiredMark {
		return operationparser.ErrOperationExpired
	}
	if from == fx.EarlyMark {
		return operationparser.ErrOperationEarly
	}
	return nil
}

type qsym struct {
	did int
	key string // C U R D U2 Ux Rx Dx
}

func (q qsym) String() string { return fmt.Sprintf("%s%d", q.key, q.did+1) }

func jsonValueEqual(a, b []byte) bool {
	va, e1 := jcs.Parse(a)
	vb, e2 := jcs.Parse(b)
	return e1 == nil && e2 == nil && jcs.Equal(va, vb)
}

// c13RoundTrip writes the batch with the real handler and reads it back with the real provider.
func c13RoundTrip(r *hx.Run, tag string, p protocol.Protocol, dids []*fx.DIDOps, seq []qsym) {
	var names []string
	for _, q := range seq {
		names = append(names, q.String())
	}
	caseID := tag + "|" + strings.Join(names, ",")
	if !r.Want(caseID) {
		return
	}
	const ns = "did:sidetree"
	cas := fx.NewMemCAS()
	ver := fx.NewVersion(p, &fx.VersionOpts{CAS: cas, ParserOpts: []operationparser.Option{operationparser.WithAnchorTimeValidator(expiryValidator{})}})
	var queued []*operation.QueuedOperation
	queuedBefore := map[int]bool{}
	for _, q := range seq {
		// a further operation of a DID is queued under an alias of the namespace: "one operation per suffix" is about the suffix
		qns := ns
		if queuedBefore[q.did] {
			qns = "did:alias"
		}
		queuedBefore[q.did] = true
		queued = append(queued, dids[q.did].Queued(q.key, qns))
	}
	// expected partition
	type exp struct {
		q   qsym
		idx int
	}
	var included, deferred, expired []exp
	seen := map[int]bool{}
	for i, q := range seq {
		switch {
		case strings.HasSuffix(q.key, "x"):
			expired = append(expired, exp{q, i})
		case seen[q.did]:
			deferred = append(deferred, exp{q, i})
		default:
			seen[q.did] = true
			included = append(included, exp{q, i})
		}
	}
	fail := func(class, msg string) {
		r.Violation(class, caseID, fmt.Sprintf("batch [%s]: %s", strings.Join(names, ","), msg), map[string]interface{}{"batch": names})
	}
	// the handler has just refused another batch part-way through (its second operation does not parse): nothing of that
	// batch may linger in the handler
	if len(queued) > 0 {
		refused := []*operation.QueuedOperation{queued[0], {Type: operation.TypeUpdate, OperationRequest: []byte(`{"type":"update"`), UniqueSuffix: "EiGarbage", Namespace: ns}}
		if _, e := ver.Handler.PrepareTxnFiles(refused); e == nil {
			fail("unparseable-operation-batched", "a batch containing an operation that does not parse was written")
		}
	}
	var info *protocol.AnchoringInfo
	var err error
	func() {
		defer func() {
			if pn := recover(); pn != nil {
				err = fmt.Errorf("panic: %v", pn)
				fail("panic:PrepareTxnFiles", fmt.Sprint(pn))
			}
		}()
		info, err = ver.Handler.PrepareTxnFiles(queued)
	}()
	r.Eval()
	r.State()
	r.Trans(int64(len(seq)))
	if err != nil {
		fail("write-failed", "PrepareTxnFiles: "+err.Error())
		return
	}
	// the same handler and provider serve another batch before anything of this one is checked (a deployment keeps one
	// handler / provider per protocol version): results already returned must not be disturbed
	var anchor2 string
	if len(dids) >= 2 && len(seq) > 0 {
		other := []*operation.QueuedOperation{dids[(seq[0].did+1)%len(dids)].Queued("C", ns), dids[(seq[0].did+len(dids)-1)%len(dids)].Queued("D", ns)}
		if info2, err2 := ver.Handler.PrepareTxnFiles(other); err2 == nil {
			anchor2 = info2.AnchorString
		}
	}
	sameQueued := func(got []*operation.QueuedOperation, want []exp) bool {
		if len(got) != len(want) {
			return false
		}
		for i := range got {
			if got[i] != queued[want[i].idx] {
				return false
			}
		}
		return true
	}
	if !sameQueued(info.AdditionalOperations, deferred) {
		fail("accounting:deferred", fmt.Sprintf("AdditionalOperations has %d entries, want the %d later operations of already included suffixes in queue order", len(info.AdditionalOperations), len(deferred)))
	}
	if !sameQueued(info.ExpiredOperations, expired) {
		fail("accounting:expired", fmt.Sprintf("ExpiredOperations has %d entries, want %d", len(info.ExpiredOperations), len(expired)))
	}
	// operation references as a set
	var gotRefs, wantRefs []string
	for _, ref := range info.OperationReferences {
		gotRefs = append(gotRefs, string(ref.Type)+":"+ref.UniqueSuffix)
	}
	for _, e := range included {
		wantRefs = append(wantRefs, string(fx.TypeOf(e.q.key))+":"+dids[e.q.did].Suffix)
	}
	sort.Strings(gotRefs)
	sort.Strings(wantRefs)
	if strings.Join(gotRefs, ",") != strings.Join(wantRefs, ",") {
		fail("accounting:references", fmt.Sprintf("operation references %v, want %v", gotRefs, wantRefs))
	}
	if len(included) == 0 {
		r.Outcome("all-expired (not asserted)")
		return
	}
	var ops []*operation.AnchoredOperation
	func() {
		defer func() {
			if pn := recover(); pn != nil {
				err = fmt.Errorf("panic: %v", pn)
				fail("panic:GetTxnOperations", fmt.Sprint(pn))
			}
		}()
		ops, err = ver.Provider.GetTxnOperations(&txn.SidetreeTxn{Namespace: ns, AnchorString: info.AnchorString, TransactionTime: 10, TransactionNumber: 1})
	}()
	if anchor2 != "" && err == nil {
		_, _ = ver.Provider.GetTxnOperations(&txn.SidetreeTxn{Namespace: ns, AnchorString: anchor2, TransactionTime: 11, TransactionNumber: 2})
	}
	r.Eval()
	r.Trace(1)
	if err != nil {
		fail("read-back-failed", fmt.Sprintf("files of a valid batch cannot be read back (anchor %s): %v", info.AnchorString, err))
		return
	}
	// expected order: create, recover, update, deactivate; queue order within a type
	var want []exp
	for _, t := range []operation.Type{operation.TypeCreate, operation.TypeRecover, operation.TypeUpdate, operation.TypeDeactivate} {
		for _, e := range included {
			if fx.TypeOf(e.q.key) == t {
				want = append(want, e)
			}
		}
	}
	var count int
	fmt.Sscanf(info.AnchorString, "%d.", &count)
	if count != len(ops) {
		fail("anchor-count", fmt.Sprintf("anchor string %s declares %d operations, %d read back", info.AnchorString, count, len(ops)))
	}
	if len(ops) != len(want) {
		fail("read-back-count", fmt.Sprintf("%d operations read back, want %d (one per distinct non-expired suffix)", len(ops), len(want)))
		return
	}
	for i, op := range ops {
		e := want[i]
		d := dids[e.q.did]
		if op.Type != fx.TypeOf(e.q.key) || op.UniqueSuffix != d.Suffix {
			fail("read-back-order-or-identity", fmt.Sprintf("position %d is %s/%s, want %s/%s (%s)", i, op.Type, short(op.UniqueSuffix), fx.TypeOf(e.q.key), short(d.Suffix), e.q))
			return
		}
		if !jsonValueEqual(op.OperationRequest, d.Req[e.q.key]) {
			fail("read-back-request-differs:"+string(op.Type), fmt.Sprintf("position %d (%s): request read back is not JSON-equal to the submitted one\n  got : %s\n  want: %s", i, e.q, hx.Trunc(string(op.OperationRequest), 300), hx.Trunc(string(d.Req[e.q.key]), 300)))
		}
		switch op.Type {
		case operation.TypeCreate:
			if !jsonEq(op.AnchorOrigin, d.Origin["C"]) {
				fail("anchor-origin:create", fmt.Sprintf("anchor origin %v, want %v", op.AnchorOrigin, d.Origin["C"]))
			}
		case operation.TypeRecover:
			if !jsonEq(op.AnchorOrigin, d.Origin["R"]) {
				fail("anchor-origin:recover", fmt.Sprintf("anchor origin %v, want %v", op.AnchorOrigin, d.Origin["R"]))
			}
		}
	}
	// the same files reachable only through an alternate source (every read of the primary CAS fails): the batch reads back all the same
	{
		alt := cas.Clone()
		for ad, b := range alt.Data {
			alt.Aliases["src:"+ad] = b
		}
		alt.FailR = func(_ int, addr string) bool { return !strings.HasPrefix(addr, "src:") }
		verAlt := fx.NewVersion(p, &fx.VersionOpts{CAS: alt, ParserOpts: []operationparser.Option{operationparser.WithAnchorTimeValidator(expiryValidator{})},
			ProviderOpts: []txnprovider.Opt{txnprovider.WithSourceCASURIFormatter(func(uri, source string) (string, error) { return source + ":" + uri, nil })}})
		opsAlt, errAlt := verAlt.Provider.GetTxnOperations(&txn.SidetreeTxn{Namespace: ns, AnchorString: info.AnchorString, TransactionTime: 10, TransactionNumber: 1, AlternateSources: []string{"src"}})
		r.Eval()
		if errAlt != nil || string(mustJSON(opsAlt)) != string(mustJSON(ops)) {
			fail("read-back-through-alternate-source", fmt.Sprintf("with the primary CAS failing and an alternate source serving every file: err=%v, same operations=%v", errAlt, errAlt == nil && string(mustJSON(opsAlt)) == string(mustJSON(ops))))
		}
	}
	types := map[operation.Type]bool{}
	for _, e := range included {
		types[fx.TypeOf(e.q.key)] = true
	}
	r.Outcome(fmt.Sprintf("included=%d deferred=%d expired=%d types=%d", len(included), len(deferred), len(expired), len(types)))
	r.Nontrivial(caseID)
}

func c13(r *hx.Run) {
	fx.Quiet()
	r.Rule = "every sequence of length 1..4 (thorough 5) over {create, update, recover, deactivate} x 3 DIDs (one of them with unusual content: non-ASCII / escaped strings, nested anchor-origin object, several patches, kid header, nonce, anchoring windows) (all mixes, orders, repeated suffixes, single-type batches), plus every sequence of length <=3 over an alphabet with expired-marked operations and second updates, plus maximum-size batches for MaxOperationCount in {1,2,5,50}, for SHA2-256 (and Ed25519/P-256), is written by the real OperationHandler to an in-memory CAS and read back by the real OperationProvider; the result must be the first queued non-expired operation per suffix, JSON-equal, with embedded anchor origin, ordered create/recover/update/deactivate, count = anchor string count, and included+deferred+expired = queued. Non-trivial: every batch that is read back."
	p := fx.DefaultProtocol()
	dids := []*fx.DIDOps{fx.NewDIDOps(fx.Ed25519, fx.SHA256, "a"), fx.NewRichDIDOps(fx.Ed25519, fx.SHA256, "b"), fx.NewDIDOps(fx.P256, fx.SHA256, "c")}
	for k, req := range dids[1].Req { // the rich requests must be valid on their own
		if _, err := fx.NewVersion(p, &fx.VersionOpts{ParserOpts: []operationparser.Option{operationparser.WithAnchorTimeValidator(expiryValidator{})}}).Parser.Parse("did:sidetree", req); err != nil && !strings.HasSuffix(k, "x") {
			panic(fmt.Sprintf("rich request %s is not valid: %v", k, err))
		}
	}
	var alpha []qsym
	for d := 0; d < 3; d++ {
		for _, k := range []string{"C", "U", "R", "D"} {
			alpha = append(alpha, qsym{d, k})
		}
	}
	maxLen := 4
	if r.Tier == "thorough" {
		maxLen = 5
	}
	for l := 1; l <= maxLen; l++ {
		// parallelise over the first symbol(s)
		prefixLen := 1
		if l >= 3 {
			prefixLen = 2
		}
		var prefixes [][]int
		tuples(len(alpha), prefixLen, func(idx []int) { prefixes = append(prefixes, append([]int(nil), idx...)) })
		hx.ParallelFor(len(prefixes), func(pi int) {
			if r.OverBudget() {
				return
			}
			tuples(len(alpha), l-prefixLen, func(rest []int) {
				seq := make([]qsym, 0, l)
				for _, i := range prefixes[pi] {
					seq = append(seq, alpha[i])
				}
				for _, i := range rest {
					seq = append(seq, alpha[i])
				}
				c13RoundTrip(r, "plain", p, dids, seq)
			})
		})
	}
	// expired-marked operations and second updates
	var alpha2 []qsym
	for d := 0; d < 2; d++ {
		for _, k := range []string{"C", "U", "R", "D", "U2", "Ux", "Rx", "Dx"} {
			alpha2 = append(alpha2, qsym{d, k})
		}
	}
	for l := 1; l <= 3; l++ {
		var seqs [][]qsym
		tuples(len(alpha2), l, func(idx []int) {
			s := make([]qsym, l)
			for i, a := range idx {
				s[i] = alpha2[a]
			}
			seqs = append(seqs, s)
		})
		hx.ParallelFor(len(seqs), func(i int) { c13RoundTrip(r, "expiry", p, dids, seqs[i]) })
	}
	// maximum-size batches with distinct suffixes
	var many []*fx.DIDOps
	for i := 0; i < 50; i++ {
		many = append(many, fx.NewDIDOps(fx.Ed25519, fx.SHA256, fmt.Sprintf("m%d", i)))
	}
	for _, n := range []int{1, 2, 5, 50} {
		pp := p
		pp.MaxOperationCount = uint(n)
		for rot := 0; rot < 4; rot++ {
			var seq []qsym
			for i := 0; i < n; i++ {
				seq = append(seq, qsym{i, []string{"C", "U", "R", "D"}[(i+rot)%4]})
			}
			c13RoundTrip(r, fmt.Sprintf("max%d", n), pp, many, seq)
		}
	}
	// a failing CAS write at every position of representative batches: PrepareTxnFiles must report an error (an
	// anchor string produced from an incomplete file set would never read back)
	for bi, seq := range [][]qsym{{{0, "C"}, {1, "U"}, {2, "R"}}, {{0, "U"}, {1, "U"}}, {{0, "C"}}, {{0, "D"}, {1, "D"}}, {{0, "R"}, {1, "U"}, {2, "D"}}, {{0, "C"}, {0, "U"}, {1, "D"}}} {
		for k := 1; k <= 6; k++ {
			caseID := fmt.Sprintf("casfault|%d|write%d", bi, k)
			if !r.Want(caseID) {
				continue
			}
			cas := fx.NewMemCAS()
			cas.FailW = func(n int, _ []byte) bool { return n == k }
			ver := fx.NewVersion(p, &fx.VersionOpts{CAS: cas})
			var queued []*operation.QueuedOperation
			for _, q := range seq {
				queued = append(queued, dids[q.did].Queued(q.key, "did:sidetree"))
			}
			info, err := ver.Handler.PrepareTxnFiles(queued)
			r.Eval()
			r.State()
			r.Nontrivial(caseID)
			failed := len(cas.Writes) < 6 && cas.FailW != nil && func() bool { // did write k happen at all?
				probe := fx.NewMemCAS()
				n := 0
				probe.FailW = func(int, []byte) bool { n++; return false }
				_, _ = fx.NewVersion(p, &fx.VersionOpts{CAS: probe}).Handler.PrepareTxnFiles(queued)
				return k <= n
			}()
			if failed && err == nil {
				_, rerr := ver.Provider.GetTxnOperations(&txn.SidetreeTxn{Namespace: "did:sidetree", AnchorString: info.AnchorString})
				r.Violation("cas-write-failure-swallowed", caseID, fmt.Sprintf("batch %v: CAS write #%d failed but PrepareTxnFiles returned anchor string %s (read back: %v)", seq, k, info.AnchorString, rerr), nil)
			}
		}
	}
	// degenerate calls: an empty batch and an unsupported compression algorithm must give an error and write nothing
	for ci, tc := range []struct {
		name string
		alg  string
		seq  []qsym
	}{{"empty-batch", p.CompressionAlgorithm, nil}, {"unknown-compression", "ZSTD-UNKNOWN", []qsym{{0, "C"}, {1, "U"}}}, {"empty-compression-name", "", []qsym{{0, "C"}}}} {
		caseID := fmt.Sprintf("degenerate|%d|%s", ci, tc.name)
		if !r.Want(caseID) {
			continue
		}
		pp := p
		pp.CompressionAlgorithm = tc.alg
		cas := fx.NewMemCAS()
		ver := fx.NewVersion(pp, &fx.VersionOpts{CAS: cas})
		var queued []*operation.QueuedOperation
		for _, q := range tc.seq {
			queued = append(queued, dids[q.did].Queued(q.key, "did:sidetree"))
		}
		var info *protocol.AnchoringInfo
		var err error
		func() {
			defer func() {
				if pn := recover(); pn != nil {
					r.Violation("panic:PrepareTxnFiles", caseID, fmt.Sprint(pn), nil)
					err = fmt.Errorf("panic")
				}
			}()
			info, err = ver.Handler.PrepareTxnFiles(queued)
		}()
		r.Eval()
		r.State()
		r.Nontrivial(caseID)
		if err == nil {
			r.Violation("degenerate-batch-anchored:"+tc.name, caseID, fmt.Sprintf("%s produced anchor string %v", tc.name, info), nil)
		}
	}
	// SHA2-512 protocol
	p512 := p
	p512.MultihashAlgorithms = []uint{fx.SHA512, fx.SHA256}
	d512 := []*fx.DIDOps{fx.NewDIDOps(fx.Ed25519, fx.SHA512, "x"), fx.NewDIDOps(fx.Secp256k1, fx.SHA512, "y")}
	var a512 []qsym
	for d := 0; d < 2; d++ {
		for _, k := range []string{"C", "U", "R", "D"} {
			a512 = append(a512, qsym{d, k})
		}
	}
	for l := 1; l <= 3; l++ {
		tuples(len(a512), l, func(idx []int) {
			s := make([]qsym, l)
			for i, a := range idx {
				s[i] = a512[a]
			}
			c13RoundTrip(r, "sha512", p512, d512, s)
		})
	}
	// the protocol allows SHA2-256 (first) and SHA2-512; a client built its create with the SECOND algorithm (delta hash, commitments).
	// The DID suffix of a create is computed by the node from the suffix data with the protocol's first algorithm - by the writer
	// and by the reader alike: the create reads back under the suffix the handler referenced
	{
		p2 := p
		p2.MultihashAlgorithms = []uint{fx.SHA256, fx.SHA512}
		var d2 []*fx.DIDOps
		for _, seed := range []string{"m", "n"} {
			d := fx.NewDIDOps(fx.Ed25519, fx.SHA512, seed)
			var t map[string]interface{}
			if err := json.Unmarshal(d.Req["C"], &t); err != nil {
				panic(err)
			}
			d.Suffix = fx.ModelHash(fx.SHA256, t["suffixData"])
			d2 = append(d2, d)
		}
		for _, s := range [][]qsym{{{0, "C"}}, {{1, "C"}}, {{0, "C"}, {1, "C"}}, {{1, "C"}, {0, "C"}}} {
			c13RoundTrip(r, "second-algorithm-create", p2, d2, s)
		}
	}
	r.Sample("plain|C1,U2,R3,D1")
	r.Sample("expiry|Ux1,U1,D2")
	r.Assumptions = append(r.Assumptions,
		"queued operations are independently built valid requests; the handler needs no DID state",
		"batches whose operations are all expired produce an anchor string with count 0 that ParseAnchorData cannot read; only the accounting (included/deferred/expired) is asserted for them",
		"expiry is signalled by a harness time validator for operations carrying anchorFrom=7777")
}
