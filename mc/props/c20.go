package props

import (
	"bytes"
	"encoding/json"
	"fmt"
	"net/http"
	"net/http/httptest"
	"sort"
	"strings"
	"sync"
	"time"

	"github.com/gorilla/mux"
	"github.com/trustbloc/sidetree-core-go/pkg/api/operation"
	"github.com/trustbloc/sidetree-core-go/pkg/api/protocol"
	"github.com/trustbloc/sidetree-core-go/pkg/api/txn"
	"github.com/trustbloc/sidetree-core-go/pkg/batch"
	"github.com/trustbloc/sidetree-core-go/pkg/batch/opqueue"
	"github.com/trustbloc/sidetree-core-go/pkg/dochandler"
	"github.com/trustbloc/sidetree-core-go/pkg/document"
	"github.com/trustbloc/sidetree-core-go/pkg/observer"
	"github.com/trustbloc/sidetree-core-go/pkg/processor"
	restapi "github.com/trustbloc/sidetree-core-go/pkg/restapi/dochandler"
	"github.com/trustbloc/sidetree-core-go/pkg/versions/1_0/txnprocessor"

	"verif/mc/fx"
	"verif/mc/hx"
	"verif/mc/ref/doc"
	"verif/mc/ref/jcs"
	"verif/mc/ref/sidetree"
)

func init() { register("C20", c20) }

const c20NS = "did:sidetree"
const c20G = 50 // genesis time of the second protocol version

// ---- harness unpublished-operation store (dochandler, txnprocessor and processor sides)
type c20Unpub struct {
	mu  sync.Mutex
	ops map[string][]*operation.AnchoredOperation
}

func (u *c20Unpub) Put(op *operation.AnchoredOperation) error {
	u.mu.Lock()
	defer u.mu.Unlock()
	c := *op
	u.ops[op.UniqueSuffix] = append(u.ops[op.UniqueSuffix], &c)
	return nil
}

func (u *c20Unpub) remove(op *operation.AnchoredOperation) {
	l := u.ops[op.UniqueSuffix]
	for i, x := range l {
		// the anchored copy is re-canonicalized by the provider: compare the request as a JSON value
		if x.Type == op.Type && jsonValueEqual(x.OperationRequest, op.OperationRequest) {
			u.ops[op.UniqueSuffix] = append(append([]*operation.AnchoredOperation{}, l[:i]...), l[i+1:]...)
			return
		}
	}
}

func (u *c20Unpub) Delete(op *operation.AnchoredOperation) error {
	u.mu.Lock()
	defer u.mu.Unlock()
	u.remove(op)
	return nil
}

func (u *c20Unpub) DeleteAll(ops []*operation.AnchoredOperation) error {
	u.mu.Lock()
	defer u.mu.Unlock()
	for _, op := range ops {
		u.remove(op)
	}
	return nil
}

func (u *c20Unpub) Get(suffix string) ([]*operation.AnchoredOperation, error) {
	u.mu.Lock()
	defer u.mu.Unlock()
	l := u.ops[suffix]
	if len(l) == 0 {
		return nil, fmt.Errorf("not found")
	}
	out := make([]*operation.AnchoredOperation, len(l))
	for i, x := range l {
		c := *x
		out[i] = &c
	}
	return out, nil
}

// ---- ledger (anchor writer)
type c20Ledger struct {
	mu   sync.Mutex
	txns []txn.SidetreeTxn
	time uint64
	ch   chan []txn.SidetreeTxn
}

func (l *c20Ledger) WriteAnchor(anchor string, _ []*protocol.AnchorDocument, _ []*operation.Reference, pv uint64) error {
	l.mu.Lock()
	defer l.mu.Unlock()
	l.time++
	k := len(l.txns)
	l.txns = append(l.txns, txn.SidetreeTxn{Namespace: c20NS, AnchorString: anchor, TransactionTime: l.time, TransactionNumber: uint64(100 - k), ProtocolVersion: pv,
		CanonicalReference: fmt.Sprintf("canon%d", k), EquivalentReferences: []string{fmt.Sprintf("eq%d", k)}})
	return nil
}
func (l *c20Ledger) Read(int) (bool, *txn.SidetreeTxn)                { return false, nil }
func (l *c20Ledger) RegisterForSidetreeTxn() <-chan []txn.SidetreeTxn { return l.ch }

// ---- configuration and scripts
type c20Step struct {
	id string // pool op id
}

type c20Config struct {
	Name     string
	Scripts  [][]string // per DID: pool op ids
	Unpub    bool
	TwoVer   bool
	MaxCount uint
}

type c20Node struct {
	cfg      c20Config
	pools    []*fx.Pool
	client   *fx.Client
	wclient  *c20WriterClient
	v0, vg   *fx.Version
	cas      *fx.MemCAS
	store    *fx.Store
	unpub    *c20Unpub
	queue    *opqueue.MemQueue
	writer   *batch.Writer
	ledger   *c20Ledger
	obs      *observer.Observer
	sp       *sentinelProvider
	handler  *dochandler.DocumentHandler
	proc     *processor.OperationProcessor
	pos      []int
	deliv    int
	advanced bool
	created  map[int]*document.ResolutionResult
}

func c20Pool(i int, kt string) *fx.Pool {
	p := fx.NewPool(kt, fx.SHA256, fmt.Sprintf("e2e-%d", i))
	return p
}

var c20AliasPatch = []interface{}{map[string]interface{}{"action": "add-also-known-as", "uris": []interface{}{"https://alias.example/me"}}}

// c20AliasOp builds the update that is only valid under the second protocol version.
func c20AliasOp(p *fx.Pool) *fx.PoolOp {
	k := p.Keys
	next := fx.Commit(k["u1"], p.Code)
	s := &fx.OpSpec{Type: "update", Suffix: p.Suffix, SignKey: k["u0"], NextUpdate: next, Patches: c20AliasPatch, Code: p.Code}
	o := &fx.PoolOp{ID: "Ualias", Type: operation.TypeUpdate, Req: s.Build(), Kind: "legit"}
	o.Abs = sidetree.Op{ID: "Ualias", Type: "update", ParseOK: true, Reveals: fx.Commit(k["u0"], p.Code), Authorized: true, NextUpdate: next, Delta: sidetree.DeltaOK, Patches: c20AliasPatch}
	return o
}

var c20JSONPatch = []interface{}{fx.JSONPatch(fx.JOp("add", "/x", "from-json-patch"))}

// c20JSONOp builds the update that is only valid under the first protocol version (ietf-json-patch is disabled in the second).
func c20JSONOp(p *fx.Pool) *fx.PoolOp {
	k := p.Keys
	next := fx.Commit(k["u1"], p.Code)
	s := &fx.OpSpec{Type: "update", Suffix: p.Suffix, SignKey: k["u0"], NextUpdate: next, Patches: c20JSONPatch, Code: p.Code}
	o := &fx.PoolOp{ID: "Ujson", Type: operation.TypeUpdate, Req: s.Build(), Kind: "legit"}
	o.Abs = sidetree.Op{ID: "Ujson", Type: "update", ParseOK: true, Reveals: fx.Commit(k["u0"], p.Code), Authorized: true, NextUpdate: next, Delta: sidetree.DeltaOK, Patches: c20JSONPatch}
	return o
}

// c20Valid tells whether the operation is valid under the protocol version with the given genesis time.
func c20Valid(id string, version uint64, twoVer bool) bool {
	switch id {
	case "Ualias":
		return twoVer && version == c20G
	case "Ujson":
		return version == 0
	}
	return true
}

func newC20Node(cfg c20Config, pools []*fx.Pool) *c20Node {
	n := &c20Node{cfg: cfg, pools: pools, cas: fx.NewMemCAS(), store: fx.NewStore(), queue: &opqueue.MemQueue{}, pos: make([]int, len(cfg.Scripts)), created: map[int]*document.ResolutionResult{}}
	n.ledger = &c20Ledger{ch: make(chan []txn.SidetreeTxn, 4)}
	allTypes := []operation.Type{operation.TypeCreate, operation.TypeUpdate, operation.TypeRecover, operation.TypeDeactivate}
	var tpOpts []txnprocessor.Option
	if cfg.Unpub {
		n.unpub = &c20Unpub{ops: map[string][]*operation.AnchoredOperation{}}
		tpOpts = append(tpOpts, txnprocessor.WithUnpublishedOperationStore(n.unpub, allTypes))
	}
	// "|tight": the operation size limit is exactly the size of the largest scripted request (every request is accepted; the
	// long-form DID of a create that fills the limit is longer than the limit, being its base64url encoding)
	tight := 0
	if strings.Contains(cfg.Name, "|tight") {
		for d, script := range cfg.Scripts {
			for _, id := range script {
				if l := len(n.opFor(d, id).Req); l > tight {
					tight = l
				}
			}
		}
	}
	mk := func(genesis uint64, second bool) *fx.Version {
		p := fx.DefaultProtocol()
		if tight > 0 {
			p.MaxOperationSize = uint(tight)
		}
		p.GenesisTime = genesis
		p.MaxOperationCount = cfg.MaxCount
		if !second {
			p.MultihashAlgorithms = []uint{fx.SHA256}
			p.Patches = []string{"replace", "add-public-keys", "remove-public-keys", "add-services", "remove-services", "ietf-json-patch"}
		} else {
			p.Patches = []string{"replace", "add-public-keys", "remove-public-keys", "add-services", "remove-services", "add-also-known-as", "remove-also-known-as"}
		}
		return fx.NewVersion(p, &fx.VersionOpts{CAS: n.cas, Store: n.store, TxnProcOpts: tpOpts})
	}
	n.v0 = mk(0, false)
	if cfg.TwoVer {
		n.vg = mk(c20G, true)
		n.client = fx.NewClient(n.v0, n.vg)
		n.client.SetCurrent(n.v0)
	} else {
		n.client = fx.NewClient(n.v0)
	}
	n.wclient = &c20WriterClient{Client: n.client}
	w, err := batch.New(c20NS, &c16Ctx{pc: n.wclient, anchor: n.ledger, queue: n.queue}, batch.WithBatchTimeout(24*time.Hour), batch.WithMonitorInterval(24*time.Hour))
	if err != nil {
		panic(err)
	}
	n.writer = w
	var popts []processor.Option
	var hopts []dochandler.Option
	if cfg.Unpub {
		popts = append(popts, processor.WithUnpublishedOperationStore(n.unpub))
		hopts = append(hopts, dochandler.WithUnpublishedOperationStore(n.unpub, allTypes))
	}
	n.proc = processor.New("e2e", n.store, n.client, popts...)
	n.handler = dochandler.New(c20NS, nil, n.client, n.writer, n.proc, fx.Metrics, hopts...)
	n.sp = &sentinelProvider{inner: fx.ClientProvider{c20NS: n.client}, done: make(chan struct{}, 1)}
	n.obs = observer.New(&observer.Providers{Ledger: n.ledger, ProtocolClientProvider: n.sp})
	n.obs.Start()
	return n
}

func (n *c20Node) close() { n.obs.Stop() }

// restSubmit sends the request through the REST update handler (which picks the current protocol version).
func (n *c20Node) restSubmit(req []byte) (*document.ResolutionResult, int) {
	uh := restapi.NewUpdateHandler(n.handler, n.client, fx.Metrics)
	rw := httptest.NewRecorder()
	uh.Update(rw, httptest.NewRequest(http.MethodPost, "/operations", bytes.NewReader(req)))
	if rw.Code != http.StatusOK {
		return nil, rw.Code
	}
	if len(bytes.TrimSpace(rw.Body.Bytes())) == 0 || string(bytes.TrimSpace(rw.Body.Bytes())) == "null" {
		return nil, rw.Code
	}
	var res document.ResolutionResult
	if err := json.Unmarshal(rw.Body.Bytes(), &res); err != nil {
		return nil, -1
	}
	return &res, rw.Code
}

// restResolve resolves through the REST resolve handler.
func (n *c20Node) restResolve(did string, query string) (*document.ResolutionResult, int) {
	rh := restapi.NewResolveHandler(n.handler, fx.Metrics)
	rw := httptest.NewRecorder()
	req := httptest.NewRequest(http.MethodGet, "/identifiers/x"+query, nil)
	req = mux.SetURLVars(req, map[string]string{"id": did})
	rh.Resolve(rw, req)
	if rw.Code != http.StatusOK {
		return nil, rw.Code
	}
	var res document.ResolutionResult
	if err := json.Unmarshal(rw.Body.Bytes(), &res); err != nil {
		return nil, -1
	}
	return &res, rw.Code
}

func (n *c20Node) opFor(d int, id string) *fx.PoolOp {
	if id == "Ualias" {
		return c20AliasOp(n.pools[d])
	}
	if id == "Ujson" {
		return c20JSONOp(n.pools[d])
	}
	return n.pools[d].Get(id)
}

// ---- reference model of the whole node
type c20MOp struct {
	d       int
	op      *fx.PoolOp
	version uint64
	uid     string
	txn     int // index of the transaction that anchored it (-1 = not yet)
}

type c20Model struct {
	cfg      c20Config
	q        *qModel
	ops      map[string]*c20MOp // by uid
	byDID    [][]*c20MOp
	txns     [][]string // per transaction: uids included
	txnVer   []uint64
	txnTime  []uint64
	time     uint64
	deliv    int
	pos      []int
	advanced bool
	seq      int
}

func (m *c20Model) current() uint64 {
	if m.advanced {
		return c20G
	}
	return 0
}

// visible returns the abstract operations of DID d that resolution sees.
func (m *c20Model) visible(d int) []*sidetree.Op {
	var out []*sidetree.Op
	for _, o := range m.byDID[d] {
		if o.txn >= 0 && o.txn < m.deliv {
			a := o.op.Abs
			a.Time, a.Num, a.Published = m.txnTime[o.txn], uint64(100-o.txn), true
			a.Ref = fmt.Sprintf("canon%d", o.txn)
			a.Equiv = []string{fmt.Sprintf("eq%d", o.txn)}
			c20VersionAdjust(&a, o)
			out = append(out, &a)
		} else if m.cfg.Unpub {
			a := o.op.Abs
			a.Time, a.Num, a.Published = 1<<40, 0, false
			c20VersionAdjust(&a, o)
			out = append(out, &a)
		}
	}
	return out
}

// c20VersionAdjust interprets the operation under the protocol version recorded at acceptance.
func c20VersionAdjust(a *sidetree.Op, o *c20MOp) {
	if !c20Valid(o.op.ID, o.version, true) {
		a.Delta = sidetree.DeltaInvalid
	}
}

func (m *c20Model) resolve(d int) (*sidetree.State, error) {
	return sidetree.Resolve(m.visible(d), nil, fx.DefaultProtocol().MaxOperationTimeDelta)
}

// submit applies the acceptance rule; returns whether the request is accepted.
func (m *c20Model) submit(d int, op *fx.PoolOp) bool {
	cur := m.current()
	ok := true
	if !c20Valid(op.ID, cur, m.cfg.TwoVer) {
		ok = false // a patch action of the request is not enabled in the current version
	}
	if ok && op.Type != operation.TypeCreate {
		st, err := m.resolve(d)
		if err != nil || st.Deactivated {
			ok = false
		}
	}
	if !ok {
		return false
	}
	m.seq++
	uid := fmt.Sprintf("d%d:%s#%d", d, op.ID, m.seq)
	mo := &c20MOp{d: d, op: op, version: cur, uid: uid, txn: -1}
	m.ops[uid] = mo
	m.byDID[d] = append(m.byDID[d], mo)
	m.q.add(qItem{uid: uid, sym: op.ID, suffix: fmt.Sprint(d), typ: op.Type, v: cur})
	return true
}

func (m *c20Model) tick(force bool) {
	before := len(m.q.Anchored)
	m.q.step(force, 0, 0)
	for _, b := range m.q.Anchored[before:] {
		var inc []string
		seen := map[string]bool{}
		for _, uid := range b.ids {
			o := m.ops[uid]
			if seen[fmt.Sprint(o.d)] {
				continue
			}
			seen[fmt.Sprint(o.d)] = true
			o.txn = len(m.txns)
			inc = append(inc, uid)
		}
		m.time++
		m.txns = append(m.txns, inc)
		m.txnVer = append(m.txnVer, b.version)
		m.txnTime = append(m.txnTime, m.time)
	}
}

func (m *c20Model) key() string {
	var sb strings.Builder
	fmt.Fprintf(&sb, "pos=%v adv=%v deliv=%d q=", m.pos, m.advanced, m.deliv)
	for _, it := range m.q.Q {
		fmt.Fprintf(&sb, "%s@%d,", strings.SplitN(it.uid, "#", 2)[0], it.v)
	}
	sb.WriteString(" txns=")
	for i, t := range m.txns {
		var s []string
		for _, u := range t {
			s = append(s, strings.SplitN(u, "#", 2)[0])
		}
		fmt.Fprintf(&sb, "[%d:%s]", m.txnVer[i], strings.Join(s, ","))
	}
	return sb.String()
}

// ---- events
type c20Event struct {
	Kind string // submit | tickM | tickT | tickT!get | observe | advance
	D    int
}

// c20WriterClient is the protocol client handed to the batch writer: its next version lookup can be made to fail once.
type c20WriterClient struct {
	*fx.Client
	failNext bool
}

func (c *c20WriterClient) Get(t uint64) (protocol.Version, error) {
	if c.failNext {
		c.failNext = false
		return nil, fmt.Errorf("injected protocol-version lookup failure")
	}
	return c.Client.Get(t)
}

// c20BadRequests are submissions that must be refused: their document is not a valid original document, or the request is
// not a valid payload.
func c20BadRequests() [][]byte {
	rk, uk := fx.NewKey(fx.Ed25519, "c20/bad/r"), fx.NewKey(fx.Ed25519, "c20/bad/u")
	mk := func(p ...interface{}) []byte {
		req, _ := fx.Create(&fx.CreateSpec{RecoveryCommit: fx.Commit(rk, fx.SHA256), UpdateCommit: fx.Commit(uk, fx.SHA256), Code: fx.SHA256, Patches: p})
		return req
	}
	return [][]byte{
		mk(fx.AddServicePatch("s1", "https://example.com/1"), fx.JSONPatch(fx.JOp("add", "/id", "did:sidetree:forged"))),
		mk(fx.AddServicePatch("s1", "https://example.com/1"), fx.JSONPatch(fx.JOp("add", "/@context", []interface{}{"https://www.w3.org/ns/did/v1"}))),
		mk(fx.JSONPatch(fx.JOp("remove", "/absent", nil))), // delta that does not apply: empty document
		[]byte(`{"type":"update","delta":{}}`),
		[]byte(`{"type":"create"`),
	}
}

func (e c20Event) String() string {
	if e.Kind == "submit" {
		return fmt.Sprintf("submit(d%d)", e.D)
	}
	return e.Kind
}

func didCore(r *document.ResolutionResult) string {
	if r == nil {
		return "<nil>"
	}
	d := doc.Plain(map[string]interface{}(r.Document)).(map[string]interface{})
	delete(d, "@context")
	b, _ := jcs.Canonical(jcs.FromGo(d))
	return string(b)
}

// c20Replay replays events on a fresh real node and the reference model in lock-step; after the last event every
// DID is resolved and compared. Returns the model and a (class, detail) disagreement.
func c20Replay(cfg c20Config, pools []*fx.Pool, events []c20Event) (*c20Model, string, string) {
	n := newC20Node(cfg, pools)
	defer n.close()
	m := &c20Model{cfg: cfg, q: &qModel{max: int(cfg.MaxCount)}, ops: map[string]*c20MOp{}, byDID: make([][]*c20MOp, len(cfg.Scripts)), pos: make([]int, len(cfg.Scripts))}
	longForm := map[int]*document.ResolutionResult{}
	for i, e := range events {
		switch e.Kind {
		case "submit":
			if n.pos[e.D] >= len(cfg.Scripts[e.D]) {
				continue
			}
			op := n.opFor(e.D, cfg.Scripts[e.D][n.pos[e.D]])
			n.pos[e.D]++
			m.pos[e.D]++
			cur, _ := n.client.Current()
			if op.Type == operation.TypeCreate {
				// long-form resolution before anything is known about the DID
				var tree map[string]interface{}
				_ = json.Unmarshal(op.Req, &tree)
				delete(tree, "type")
				lf := c20NS + ":" + pools[e.D].Suffix + ":" + fx.B64(jcs.MustCanon(tree))
				if res, code := n.restResolve(lf, ""); code == http.StatusOK {
					longForm[e.D] = res
				} else {
					return m, "long-form-resolution-failed", fmt.Sprintf("event %d: long-form DID of d%d does not resolve before anchoring: HTTP %d", i, e.D, code)
				}
			}
			_ = cur
			res, code := n.restSubmit(op.Req)
			want := m.submit(e.D, op)
			if (code == http.StatusOK) != want {
				return m, "acceptance:" + string(op.Type), fmt.Sprintf("event %d: %s of d%d answered HTTP %d, reference accepts=%v", i, op.ID, e.D, code, want)
			}
			if !want && code != http.StatusBadRequest {
				return m, "refusal-status:" + string(op.Type), fmt.Sprintf("event %d: refused %s of d%d answered HTTP %d, want 400", i, op.ID, e.D, code)
			}
			if code == http.StatusOK && op.Type == operation.TypeCreate {
				if res == nil {
					return m, "create-response-missing", fmt.Sprintf("event %d: create of d%d returned no document", i, e.D)
				}
				n.created[e.D] = res
			}
		case "submitBad":
			// requests the document validator / intake must refuse: creates whose document carries an id or a context, an
			// update without didSuffix, garbage. The reference state does not change; any trace shows up as a ledger difference.
			for bi, req := range c20BadRequests() {
				if _, code := n.restSubmit(req); code == http.StatusOK {
					return m, "acceptance:invalid-request", fmt.Sprintf("event %d: invalid request #%d was accepted (HTTP 200): %s", i, bi, hx.Trunc(string(req), 200))
				}
			}
			if got, want := int(n.queue.Len()), len(m.q.Q); got != want {
				return m, "refused-request-queued", fmt.Sprintf("event %d: queue holds %d operations after refused submissions, reference %d", i, got, want)
			}
		case "tickM":
			n.writer.VerifStep(false)
			m.tick(false)
		case "tickT":
			n.writer.VerifStep(true)
			m.tick(true)
		case "tickT!get":
			// a timeout tick during which the writer's protocol-version lookup for the first batch fails: the batch stays queued
			// under its own version and is anchored by a later tick
			n.wclient.failNext = true
			n.writer.VerifStep(true)
			n.wclient.failNext = false
			m.q.failGet = 1
			m.tick(true)
		case "observe":
			n.ledger.mu.Lock()
			pending := append([]txn.SidetreeTxn{}, n.ledger.txns[n.deliv:]...)
			n.deliv = len(n.ledger.txns)
			n.ledger.mu.Unlock()
			if len(pending) > 0 {
				n.ledger.ch <- pending
			}
			n.ledger.ch <- []txn.SidetreeTxn{{Namespace: "sentinel"}}
			<-n.sp.done
			m.deliv = len(m.txns)
		case "advance":
			if cfg.TwoVer && !n.advanced {
				n.advanced, m.advanced = true, true
				if m.time < c20G {
					m.time = c20G
				}
				n.client.SetCurrent(n.vg)
				n.ledger.mu.Lock()
				if n.ledger.time < c20G {
					n.ledger.time = c20G
				}
				n.ledger.mu.Unlock()
			}
		}
		// ledger agreement after every event
		if len(n.ledger.txns) != len(m.txns) {
			return m, "ledger-transactions", fmt.Sprintf("after event %d (%s): %d transactions anchored, reference %d", i, e, len(n.ledger.txns), len(m.txns))
		}
		for k, t := range n.ledger.txns {
			if t.ProtocolVersion != m.txnVer[k] {
				return m, "transaction-version", fmt.Sprintf("transaction %d anchored under protocol version %d, reference %d", k, t.ProtocolVersion, m.txnVer[k])
			}
			var cnt int
			fmt.Sscanf(t.AnchorString, "%d.", &cnt)
			if cnt != len(m.txns[k]) {
				return m, "transaction-size", fmt.Sprintf("transaction %d carries %d operations, reference %d (%v)", k, cnt, len(m.txns[k]), m.txns[k])
			}
		}
	}
	// resolution of every DID against the reference
	for d := range cfg.Scripts {
		did := c20NS + ":" + pools[d].Suffix
		res, code := n.restResolve(did, "")
		st, merr := m.resolve(d)
		if (code == http.StatusOK) != (merr == nil) {
			return m, "resolvable", fmt.Sprintf("d%d answered HTTP %d, reference resolves=%v; visible operations %v", d, code, merr == nil, c20Visible(m, d))
		}
		if code != http.StatusOK {
			if code != http.StatusNotFound {
				return m, "unresolvable-status", fmt.Sprintf("d%d not resolvable but answered HTTP %d, want 404", d, code)
			}
			continue
		}
		anyPublished := false
		for _, o := range m.visible(d) {
			if o.Published {
				anyPublished = true
			}
		}
		want := refProject(st.Doc, did, c19Opts{})
		if canonOf(res.Document) != canonOf(want) {
			return m, "resolved-document", fmt.Sprintf("d%d after %v\n  impl: %s\n  ref : %s\n  visible operations %v", d, events, hx.Trunc(canonOf(res.Document), 600), hx.Trunc(canonOf(want), 600), c20Visible(m, d))
		}
		md := doc.Plain(res.DocumentMetadata).(map[string]interface{})
		method, _ := md["method"].(map[string]interface{})
		if fmt.Sprint(method["updateCommitment"]) != fmt.Sprint(nilIfEmpty(st.Upd)) || fmt.Sprint(method["recoveryCommitment"]) != fmt.Sprint(nilIfEmpty(st.Rec)) {
			return m, "resolved-commitments", fmt.Sprintf("d%d: metadata commitments upd=%v rec=%v, reference upd=%s rec=%s", d, method["updateCommitment"], method["recoveryCommitment"], short(st.Upd), short(st.Rec))
		}
		if (md["deactivated"] == true) != st.Deactivated {
			return m, "resolved-deactivated", fmt.Sprintf("d%d: deactivated=%v, reference %v", d, md["deactivated"], st.Deactivated)
		}
		if method["published"] != anyPublished {
			return m, "resolved-published-flag", fmt.Sprintf("d%d: published=%v, reference %v", d, method["published"], anyPublished)
		}
		if anyPublished {
			wantCanon := c20NS + ":" + pools[d].Suffix
			if st.Canonical != "" {
				wantCanon = c20NS + ":" + st.Canonical + ":" + pools[d].Suffix
			}
			if md["canonicalId"] != wantCanon {
				return m, "resolved-canonical-id", fmt.Sprintf("d%d: canonicalId %v, reference %s", d, md["canonicalId"], wantCanon)
			}
		}
		// create response, long-form resolution and (when only the create is visible) short-form resolution agree
		if cr := n.created[d]; cr != nil {
			lf := longForm[d]
			lfCore := strings.ReplaceAll(didCore(lf), lf.Document.ID(), did)
			if didCore(cr) != lfCore {
				return m, "create-response-vs-long-form", fmt.Sprintf("d%d\n  response : %s\n  long form: %s", d, hx.Trunc(didCore(cr), 500), hx.Trunc(lfCore, 500))
			}
			if len(st.Applied) == 1 && st.Applied[0] == "C" && didCore(res) != didCore(cr) {
				return m, "create-response-vs-short-form", fmt.Sprintf("d%d\n  response  : %s\n  short form: %s", d, hx.Trunc(didCore(cr), 500), hx.Trunc(didCore(res), 500))
			}
		}
	}
	return m, "", ""
}

func c20Visible(m *c20Model, d int) []string {
	var out []string
	for _, o := range m.visible(d) {
		out = append(out, fmt.Sprintf("%s@%d.%d pub=%v", o.ID, o.Time, o.Num, o.Published))
	}
	return out
}

func c20(r *hx.Run) {
	fx.Quiet()
	r.Rule = "breadth-first search over event sequences {submit next scripted request of DID d, monitor tick, timeout tick, observe (deliver all pending ledger transactions), submit invalid requests (document with id / context, non-applying delta, malformed: must be refused without a trace), advance (switch to the second protocol version), timeout tick with the writer's protocol-version lookup failing (two-version configurations without unpublished store)} on a node assembled only from the library's real parts (REST update/resolve handlers -> DocumentHandler with default decorator -> Writer/cutter/MemQueue -> OperationHandler -> CAS -> harness ledger -> Observer -> TxnProcessor/OperationProvider -> store -> processor -> didtransformer), de-duplicated on the reference state; every transition replays the sequence on a fresh node in lock-step with the reference (acceptance rule, queue/batch model, ledger, ref/sidetree resolution, independent projection); configurations vary scripts (C U U / C U R U / C D U / C R D / C R(out of window) U / C D(out of window) D / C R U(next commitment = the recover's revealed one) / C U(alias) / C U(json-patch); the two protocol versions each enable a patch action the other lacks), unpublished-operation store and one or two protocol versions. Non-trivial: states in which at least one DID resolves with an operation applied after its create."
	configs := []c20Config{
		{"AB|nounpub|1ver", [][]string{{"C", "U01", "U12"}, {"C", "U01", "R01", "V01"}}, false, false, 2},
		{"CD|unpub|1ver", [][]string{{"C", "D0", "U01"}, {"C", "R01", "D1"}}, true, false, 2},
		{"FE|nounpub|2ver", [][]string{{"C", "Ujson", "U12"}, {"C", "Ualias", "U12"}}, false, true, 2},
		{"BE|unpub|2ver", [][]string{{"C", "U01", "R01", "V01"}, {"C", "Ualias"}}, true, true, 2},
		// R01~w: recover anchored outside its signed window; D0~w then D0: a deactivate anchored outside its window (no effect) retried with the same key
		{"DC|nounpub|1ver", [][]string{{"C", "R01~w", "V01"}, {"C", "D0~w", "D0"}}, false, false, 2},
		// V0>r0: after a recover, an update whose next update commitment is the commitment the recover revealed
		{"GA|nounpub|1ver", [][]string{{"C", "R01", "V0>r0"}, {"C", "U01"}}, false, false, 2},
		// every scripted request fits the operation-size limit exactly or nearly (the creates are the largest requests)
		{"CC|nounpub|1ver|tight", [][]string{{"C"}, {"C", "U01"}}, false, false, 2},
	}
	depth := 8
	if r.Tier == "thorough" {
		depth = 11
		configs = append(configs,
			c20Config{"AB|unpub|1ver", [][]string{{"C", "U01", "U12"}, {"C", "U01", "R01", "V01"}}, true, false, 2},
			c20Config{"EA|nounpub|2ver", [][]string{{"C", "Ualias", "U12"}, {"C", "U01", "U12"}}, false, true, 2},
			c20Config{"FA|unpub|2ver", [][]string{{"C", "Ujson", "U12"}, {"C", "U01", "U12"}}, true, true, 2},
			c20Config{"CD|nounpub|2ver", [][]string{{"C", "D0", "U01"}, {"C", "R01", "D1"}}, false, true, 2},
			c20Config{"AB|nounpub|1ver|max3", [][]string{{"C", "U01", "U12"}, {"C", "U01", "R01", "V01"}}, false, false, 3},
			c20Config{"AE|unpub|2ver|max1", [][]string{{"C", "U01", "U12"}, {"C", "Ualias"}}, true, true, 1},
		)
	}
	for _, cfg := range configs {
		if r.OverBudget() {
			break
		}
		pools := []*fx.Pool{c20Pool(0, fx.Ed25519), c20Pool(1, fx.Ed25519)}
		if strings.HasPrefix(cfg.Name, "CD") || strings.HasPrefix(cfg.Name, "DC") {
			pools[1] = c20Pool(1, fx.P256)
		}
		if r.Only != "" {
			// replay of one recorded event sequence: execute it directly (the search would not reach it under a filter)
			if !strings.HasPrefix(r.Only, cfg.Name+"|") {
				continue
			}
			var h []c20Event
			for _, tok := range strings.Split(strings.TrimPrefix(r.Only, cfg.Name+"|"), ";") {
				switch {
				case strings.HasPrefix(tok, "submit(d"):
					var d int
					fmt.Sscanf(tok, "submit(d%d)", &d)
					h = append(h, c20Event{Kind: "submit", D: d})
				case tok != "":
					h = append(h, c20Event{Kind: tok})
				}
			}
			for i := 0; i < 2; i++ { // twice: identical verdicts required
				_, class, detail := c20Replay(cfg, pools, h)
				r.Eval()
				if class != "" {
					r.Violation("e2e:"+class, r.Only, fmt.Sprintf("configuration %s, events %v\n  %s", cfg.Name, h, detail), nil)
				}
			}
			continue
		}
		evs := []c20Event{{Kind: "submit", D: 0}, {Kind: "submit", D: 1}, {Kind: "tickM"}, {Kind: "tickT"}, {Kind: "observe"}, {Kind: "submitBad"}}
		if cfg.TwoVer {
			evs = append(evs, c20Event{Kind: "advance"})
			if !cfg.Unpub {
				evs = append(evs, c20Event{Kind: "tickT!get"})
			}
		}
		type node struct{ events []c20Event }
		seen := map[string]bool{}
		m0, _, _ := c20Replay(cfg, pools, nil)
		seen[m0.key()] = true
		frontier := []node{{nil}}
		var mu sync.Mutex
		for d := 0; d < depth && len(frontier) > 0; d++ {
			var next []node
			hx.ParallelFor(len(frontier), func(fi int) {
				if r.OverBudget() {
					return
				}
				for _, e := range evs {
					h := append(append([]c20Event{}, frontier[fi].events...), e)
					var names []string
					for _, x := range h {
						names = append(names, x.String())
					}
					caseID := cfg.Name + "|" + strings.Join(names, ";")
					if !r.Want(caseID) {
						continue
					}
					done := r.Watch(caseID)
					m, class, detail := c20Replay(cfg, pools, h)
					done()
					r.Eval()
					r.Trans(1)
					r.Trace(1)
					if class != "" {
						r.Violation("e2e:"+class, caseID, fmt.Sprintf("configuration %s, events %v\n  %s", cfg.Name, names, detail), map[string]interface{}{"config": cfg.Name, "events": names})
						continue
					}
					k := m.key()
					mu.Lock()
					if !seen[k] {
						seen[k] = true
						next = append(next, node{h})
						for dd := range cfg.Scripts {
							if st, err := m.resolve(dd); err == nil && len(st.Applied) > 1 {
								r.Nontrivial(cfg.Name + k)
								r.Outcome(cfg.Name + ": resolves with " + strings.Join(st.Applied, ">"))
							}
						}
					}
					mu.Unlock()
				}
			})
			sort.Slice(next, func(i, j int) bool { return fmt.Sprint(next[i].events) < fmt.Sprint(next[j].events) })
			frontier = next
		}
		r.States += int64(len(seen))
		r.Extra["states_"+cfg.Name] = len(seen)
		r.Sample(map[string]interface{}{"config": cfg.Name, "scripts": cfg.Scripts, "example": "submit(d0);submit(d1);tickM;observe;submit(d0);tickT"})
	}
	r.Extra["depth"] = depth
	r.Assumptions = append(r.Assumptions,
		"wall-clock fields (transaction time of unpublished operations, created/updated metadata) are excluded from the comparison; scripted operations carry no anchoring window",
		"the harness ledger assigns transaction time (increasing), number (decreasing, to be non-monotone), canonical and equivalent references; the observer goroutine is synchronised with a sentinel transaction",
		"CAS / anchor faults and truly concurrent submissions are explored in C16, not here")
}
