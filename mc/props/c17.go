package props

import (
	"encoding/json"
	"errors"
	"fmt"
	"sort"
	"strings"
	"sync"

	"github.com/trustbloc/sidetree-core-go/pkg/document"
	"github.com/trustbloc/sidetree-core-go/pkg/patch"
	"github.com/trustbloc/sidetree-core-go/pkg/versions/1_0/doccomposer"

	"verif/mc/fx"
	"verif/mc/hx"
	"verif/mc/ref/doc"
)

func init() { register("C17", c17) }

type c17Patch struct {
	name string
	js   string // JSON of the patch (decoded fresh for every application: no aliasing between applications)
}

func (p c17Patch) lib() patch.Patch {
	var m patch.Patch
	if err := json.Unmarshal([]byte(p.js), &m); err != nil {
		panic(err)
	}
	return m
}

// ctor builds the same patch through the library's constructor for its action (nil, nil when there is none).
func (p c17Patch) ctor() (patch.Patch, error) {
	m, _ := p.plain().(map[string]interface{})
	arg := func(k string) string { return string(mustJSON(m[k])) }
	switch m["action"] {
	case "add-public-keys":
		if _, ok := m["publicKeys"]; ok {
			return patch.NewAddPublicKeysPatch(arg("publicKeys"))
		}
	case "remove-public-keys":
		return patch.NewRemovePublicKeysPatch(arg("ids"))
	case "add-services":
		return patch.NewAddServiceEndpointsPatch(arg("services"))
	case "remove-services":
		return patch.NewRemoveServiceEndpointsPatch(arg("ids"))
	case "add-also-known-as":
		return patch.NewAddAlsoKnownAs(arg("uris"))
	case "remove-also-known-as":
		return patch.NewRemoveAlsoKnownAs(arg("uris"))
	case "replace":
		return patch.NewReplacePatch(arg("document"))
	case "ietf-json-patch":
		return patch.NewJSONPatch(arg("patches"))
	}
	return nil, nil
}

// viaBytes builds the patch with patch.FromBytes and serializes / parses it once more.
func (p c17Patch) viaBytes() (patch.Patch, error) {
	if strings.HasPrefix(p.name, "FAIL-unknown") || strings.HasPrefix(p.name, "FAIL-missing") {
		return nil, nil
	}
	q, err := patch.FromBytes([]byte(p.js))
	if err != nil {
		return nil, err
	}
	b, err := q.Bytes()
	if err != nil {
		return nil, err
	}
	return patch.FromBytes(b)
}

func (p c17Patch) plain() interface{} {
	var v interface{}
	_ = json.Unmarshal([]byte(p.js), &v)
	return v
}

func c17Alphabet() []c17Patch {
	kA, kB := fx.NewKey(fx.Ed25519, "c17/a"), fx.NewKey(fx.P256, "c17/b")
	j := func(v interface{}) string { return string(mustJSON(v)) }
	k1 := fx.KeyEntry("k1", kA, []interface{}{"authentication"})
	k1b := fx.KeyEntry("k1", kB, []interface{}{"assertionMethod"})
	k2 := fx.KeyEntry("k2", kB, nil)
	k1c := map[string]interface{}{"id": "k1", "type": "Ed25519VerificationKey2018", "publicKeyBase58": "3M5RCDjPTWPkKSN3sxUmmMqHbmRPegYP1tjcKyrDbt9J"} // same id, fewer / other members
	s1c := map[string]interface{}{"id": "s1", "type": "Plain", "serviceEndpoint": "https://example.com/1c"}
	s1 := fx.ServiceEntry("s1", "https://example.com/1")
	s1b := map[string]interface{}{"id": "s1", "type": "Other", "serviceEndpoint": []interface{}{"https://example.com/1b"}, "extra": true}
	s2 := fx.ServiceEntry("s2", "https://example.com/2")
	addK := func(ks ...interface{}) string {
		return j(map[string]interface{}{"action": "add-public-keys", "publicKeys": ks})
	}
	rmK := func(ids ...interface{}) string {
		return j(map[string]interface{}{"action": "remove-public-keys", "ids": ids})
	}
	addS := func(ss ...interface{}) string {
		return j(map[string]interface{}{"action": "add-services", "services": ss})
	}
	rmS := func(ids ...interface{}) string {
		return j(map[string]interface{}{"action": "remove-services", "ids": ids})
	}
	addA := func(us ...interface{}) string {
		return j(map[string]interface{}{"action": "add-also-known-as", "uris": us})
	}
	rmA := func(us ...interface{}) string {
		return j(map[string]interface{}{"action": "remove-also-known-as", "uris": us})
	}
	return []c17Patch{
		{"+k1", addK(k1)}, {"+k1*", addK(k1b)}, {"+k1-", addK(k1c)}, {"+k2", addK(k2)}, {"+{k1,k2}", addK(k1, k2)}, {"+{k2,k1*}", addK(k2, k1b)},
		{"-k1", rmK("k1")}, {"-k9", rmK("k9")}, {"-{k1,k2}", rmK("k1", "k2")},
		{"+s1", addS(s1)}, {"+s1*", addS(s1b)}, {"+s1-", addS(s1c)}, {"+s2", addS(s2)}, {"+{s1,s2}", addS(s1, s2)}, {"+{s2,s1*}", addS(s2, s1b)},
		{"-s1", rmS("s1")}, {"-s9", rmS("s9")}, {"-{s1,s2}", rmS("s1", "s2")},
		{"+a1", addA("https://a1.example")}, {"+a2", addA("https://a2.example")}, {"+{a1,a2}", addA("https://a1.example", "https://a2.example")},
		{"-a1", rmA("https://a1.example")}, {"-a9", rmA("https://a9.example")},
		{"replace{k2,s2}", j(map[string]interface{}{"action": "replace", "document": map[string]interface{}{"publicKeys": []interface{}{k2}, "services": []interface{}{s2}}})},
		{"replace{}", j(map[string]interface{}{"action": "replace", "document": map[string]interface{}{}})},
		{"json-add-x", j(fx.JSONPatch(fx.JOp("add", "/x", "v1")))}, {"json-replace-x", j(fx.JSONPatch(fx.JOp("replace", "/x", map[string]interface{}{"n": 2.0})))},
		{"json-add-y-add-x", j(fx.JSONPatch(fx.JOp("add", "/y", []interface{}{1.0}), fx.JOp("add", "/x", "v3")))},
		// removal / move / copy of top-level members (fail when the member is absent; otherwise the member must be gone / renamed)
		{"json-remove-x", j(fx.JSONPatch(fx.JOp("remove", "/x", nil)))},
		{"json-move-x-y", j(fx.JSONPatch(map[string]interface{}{"op": "move", "from": "/x", "path": "/y"}))},
		{"json-copy-y-x", j(fx.JSONPatch(map[string]interface{}{"op": "copy", "from": "/y", "path": "/x"}))},
		{"json-remove-aliases", j(fx.JSONPatch(fx.JOp("remove", "/alsoKnownAs", nil)))},
		{"FAIL-json-remove-absent", j(fx.JSONPatch(fx.JOp("remove", "/absent", nil)))},
		{"FAIL-json-add-then-remove-absent", j(fx.JSONPatch(fx.JOp("add", "/z", 1.0), fx.JOp("remove", "/absent", nil)))},
		{"FAIL-unknown-action", `{"action":"frobnicate","x":1}`},
		{"FAIL-missing-value", `{"action":"add-public-keys"}`},
	}
}

func c17(r *hx.Run) {
	fx.Quiet()
	r.Rule = "breadth-first search from the empty document: a transition applies one patch of a 36-patch alphabet (add/replace-in-place/remove of 2 keys, 2 services, 2 aliases, replace, JSON patches, 4 failing patches) through the real DocumentComposer; states are canonical documents, explored to depth 3 (thorough 4); in every state every single patch and every list of two over a 23-patch sub-alphabet (thorough: every list of two over all 36 and every list of three over the sub-alphabet from the states within two steps of the empty document) is applied and checked for purity (input equals a snapshot, also after the result is mutated), determinism, atomicity (failing member => (nil, err); otherwise equal to the fold of singletons) and equality with the ordered-map reference ref/doc; every reachable document with non-empty sections must survive PatchesFromDocument -> ApplyPatches({}); documents with 1..9 entries per section x adds mixing new and existing ids in every order / removals / pairs / removal lists longer than the section (slice-growth and count boundaries) against ref/doc; every single patch is also built through the library's constructor for its action (patch.New*Patch) and through FromBytes/Bytes and must have the same effect in every state; the same round trip for ~330 well-formed documents carrying every content class (format verbs such as %s, quotes, backslashes, control / non-ASCII / astral characters, numbers, null, nested containers) as member value, member name, nested value, service / key member, endpoint and alias. Non-trivial: distinct (state, list) pairs whose reference result differs from the input state or fails."
	alpha := c17Alphabet()
	composer := doccomposer.New()
	maxDepth := 3
	listLen := 2
	if r.Tier == "thorough" {
		maxDepth, listLen = 4, 3
	}
	apply := func(d doc.Doc, ps []c17Patch) (document.Document, error, bool) {
		in := document.Document(doc.Clone(d).(doc.Doc))
		var lib []patch.Patch
		for _, p := range ps {
			lib = append(lib, p.lib())
		}
		var out document.Document
		var err error
		panicked := false
		func() {
			defer func() {
				if p := recover(); p != nil {
					panicked = true
					err = fmt.Errorf("panic: %v", p)
				}
			}()
			out, err = composer.ApplyPatches(in, lib)
		}()
		return out, err, panicked
	}
	// BFS
	type node struct {
		d     doc.Doc
		depth int
		path  []string
	}
	seen := map[string]bool{doc.Norm(doc.Doc{}): true}
	frontier := []node{{doc.Doc{}, 0, nil}}
	var states []node
	for len(frontier) > 0 {
		n := frontier[0]
		frontier = frontier[1:]
		states = append(states, n)
		if n.depth == maxDepth {
			continue
		}
		for _, p := range alpha {
			out, err, _ := apply(n.d, []c17Patch{p})
			r.Trans(1)
			if err != nil {
				continue
			}
			plain := doc.Plain(map[string]interface{}(out)).(map[string]interface{})
			// the search state keeps the implementation's exact document (null vs [] sections are distinct states)
			k := string(mustJSON(plain))
			if !seen[k] {
				seen[k] = true
				frontier = append(frontier, node{plain, n.depth + 1, append(append([]string{}, n.path...), p.name)})
			}
		}
	}
	r.States = int64(len(states))
	r.Extra["bfs_depth"] = maxDepth
	var lists [][]int
	// quick: lists of two are formed over the alphabet without near-duplicates of other members (singletons use everything);
	// thorough: the whole alphabet at every length
	pairSkip := map[string]bool{"+k1-": true, "+s1-": true, "-k9": true, "-s9": true, "-a9": true, "json-replace-x": true, "replace{}": true, "+{a1,a2}": true,
		"FAIL-json-add-then-remove-absent": true, "FAIL-missing-value": true, "json-copy-y-x": true, "+a2": true, "+{s1,s2}": true}
	for l := 1; l <= listLen; l++ {
		tuples(len(alpha), l, func(idx []int) {
			if (r.Tier == "quick" && l > 1) || l > 2 { // lists of three (thorough) also over the sub-alphabet
				for _, i := range idx {
					if pairSkip[alpha[i].name] {
						return
					}
				}
			}
			lists = append(lists, append([]int(nil), idx...))
		})
	}
	var mu sync.Mutex
	outcomes := map[string]bool{}
	hx.ParallelFor(len(states), func(si int) {
		if r.OverBudget() {
			return
		}
		st := states[si]
		snapshot := string(mustJSON(st.d))
		for _, li := range lists {
			if len(li) > 2 && len(st.path) > 2 {
				continue // lists of three (thorough) start from the states within two steps of the empty document
			}
			ps := make([]c17Patch, len(li))
			names := make([]string, len(li))
			for i, a := range li {
				ps[i], names[i] = alpha[a], alpha[a].name
			}
			caseID := fmt.Sprintf("%s|%s", strings.Join(st.path, ">"), strings.Join(names, ","))
			if !r.Want(caseID) {
				continue
			}
			fail := func(class, msg string) {
				r.Violation(class, caseID, fmt.Sprintf("document reached by [%s] = %s, patch list [%s]: %s", strings.Join(st.path, ">"), hx.Trunc(snapshot, 300), strings.Join(names, ","), msg),
					map[string]interface{}{"path": st.path, "patches": names})
			}
			in := document.Document(doc.Clone(st.d).(doc.Doc))
			var lib []patch.Patch
			for _, p := range ps {
				lib = append(lib, p.lib())
			}
			var out document.Document
			var err error
			func() {
				defer func() {
					if p := recover(); p != nil {
						err = fmt.Errorf("panic: %v", p)
						fail("panic:ApplyPatches", fmt.Sprint(p))
					}
				}()
				out, err = composer.ApplyPatches(in, lib)
			}()
			r.Eval()
			r.Trace(1)
			// purity
			if string(mustJSON(in)) != snapshot {
				fail("input-modified", "input document changed to "+hx.Trunc(string(mustJSON(in)), 300))
			}
			// the same patch built through the library's constructor / FromBytes must have the same effect
			if len(ps) == 1 {
				for route, build := range map[string]func() (patch.Patch, error){"constructor": ps[0].ctor, "FromBytes": ps[0].viaBytes} {
					lp, berr := build()
					if lp == nil && berr == nil {
						continue
					}
					if berr != nil {
						fail("patch-"+route+"-refuses:"+ps[0].name, berr.Error())
						continue
					}
					in2 := document.Document(doc.Clone(st.d).(doc.Doc))
					out2, err2 := composer.ApplyPatches(in2, []patch.Patch{lp})
					r.Eval()
					if (err2 == nil) != (err == nil) || (err == nil && doc.Norm(doc.Doc(out2)) != doc.Norm(doc.Doc(out))) {
						fail("patch-"+route+"-differs:"+ps[0].name, fmt.Sprintf("patch built through the %s gives %s (err=%v), the same patch parsed from JSON gives %s (err=%v)", route,
							hx.Trunc(doc.Norm(doc.Doc(out2)), 300), err2, hx.Trunc(doc.Norm(doc.Doc(out)), 300), err))
					}
				}
			}
			// reference
			var plainPatches []interface{}
			for _, p := range ps {
				plainPatches = append(plainPatches, p.plain())
			}
			want, werr := doc.ApplyAll(st.d, plainPatches)
			if errors.Is(werr, doc.ErrUnmodelled) {
				// outside what the reference defines: only purity, atomic shape and determinism are required
				if (out == nil) == (err == nil) {
					fail("not-atomic", fmt.Sprintf("call returned doc=%v err=%v", out != nil, err))
				}
				out2, err2, _ := apply(st.d, ps)
				if (err2 == nil) != (err == nil) || (err == nil && doc.Norm(doc.Doc(out2)) != doc.Norm(doc.Doc(out))) {
					fail("non-deterministic", "second application differs")
				}
				r.Outcome("unmodelled-json-patch-shape")
				continue
			}
			if werr != nil {
				if err == nil || out != nil {
					fail("not-atomic", fmt.Sprintf("a member of the list fails (%v) but the call returned doc=%v err=%v", werr, out != nil, err))
				}
				r.Nontrivial(caseID)
				continue
			}
			if err != nil {
				fail("unexpected-error", fmt.Sprintf("reference applies the list, implementation fails: %v", err))
				continue
			}
			gotN, wantN := doc.Norm(doc.Doc(out)), doc.Norm(want)
			if gotN != wantN {
				fail("ordered-set-semantics:"+names[len(names)-1], fmt.Sprintf("\n  impl: %s\n  ref : %s", hx.Trunc(gotN, 500), hx.Trunc(wantN, 500)))
				continue
			}
			if wantN != doc.Norm(st.d) {
				r.Nontrivial(caseID)
			}
			// determinism
			out2, err2, _ := apply(st.d, ps)
			if err2 != nil || doc.Norm(doc.Doc(out2)) != gotN {
				fail("non-deterministic", "second application differs")
			}
			// fold of singletons (atomicity of the successful path)
			if len(ps) > 1 {
				cur := st.d
				okFold := true
				for _, p := range ps {
					o, e, _ := apply(cur, []c17Patch{p})
					if e != nil {
						okFold = false
						break
					}
					cur = doc.Plain(map[string]interface{}(o)).(map[string]interface{})
				}
				if !okFold || doc.Norm(cur) != gotN {
					fail("list-differs-from-fold", "applying the list differs from applying its members one by one")
				}
			}
			// a later, unrelated composition by the same composer must not disturb this result (no shared scratch state)
			if len(ps) == 1 && out != nil {
				_, _ = composer.ApplyPatches(document.Document{"publicKey": []interface{}{map[string]interface{}{"id": "zz", "type": "T"}}, "service": []interface{}{map[string]interface{}{"id": "zz"}}},
					[]patch.Patch{alpha[(si+3)%len(alpha)].lib(), alpha[(si+11)%len(alpha)].lib()})
				if doc.Norm(doc.Doc(out)) != gotN {
					fail("result-disturbed-by-later-composition", "the returned document changed after the composer was used again: "+hx.Trunc(doc.Norm(doc.Doc(out)), 300))
				}
			}
			// aliasing: mutate the result deeply; the input must not change
			mutateDeep(map[string]interface{}(out))
			if string(mustJSON(in)) != snapshot {
				fail("result-aliases-input", "mutating the returned document changed the input document")
			}
			mu.Lock()
			outcomes[gotN] = true
			mu.Unlock()
		}
		// round trip
		c17RoundTrip(r, composer, st.d, strings.Join(st.path, ">"))
		if si%97 == 0 {
			r.Sample(map[string]interface{}{"state_path": st.path, "document": hx.Trunc(snapshot, 200), "lists_applied": len(lists)})
		}
	})
	// larger sections: 1..9 entries per section (slice growth boundaries), adds mixing new and existing ids in both orders
	c17Sized(r, composer)
	// round trip over content classes: every string / value class at every position of a well-formed document
	c17ContentRoundTrips(r, composer)
	r.Extra["distinct_result_documents"] = len(outcomes)
	r.Extra["patch_lists_per_state"] = len(lists)
	r.Assumptions = append(r.Assumptions,
		"add-lists never repeat an id within one patch (such patches are refused by the validator, C18)",
		"an empty, null or absent key/service/alias section is the same document for the comparison with the reference",
		"search states keep the implementation's exact JSON (null vs [] sections are different states), so both are used as starting points")
}

func mutateDeep(v interface{}) {
	switch t := v.(type) {
	case map[string]interface{}:
		keys := make([]string, 0, len(t))
		for k := range t {
			keys = append(keys, k)
		}
		sort.Strings(keys)
		for _, k := range keys {
			mutateDeep(t[k])
			if _, isStr := t[k].(string); isStr {
				t[k] = "MUTATED"
			}
		}
		t["__mut"] = true
	case []interface{}:
		for i := range t {
			mutateDeep(t[i])
			if _, isStr := t[i].(string); isStr {
				t[i] = "MUTATED"
			}
		}
	}
}

func c17RoundTrip(r *hx.Run, composer *doccomposer.DocumentComposer, d doc.Doc, path string) {
	// precondition of the statement: the three sections are non-empty lists
	for _, sec := range []string{"publicKey", "service", "alsoKnownAs"} {
		a, ok := d[sec].([]interface{})
		if !ok || len(a) == 0 {
			return
		}
	}
	caseID := "roundtrip|" + path
	if !r.Want(caseID) {
		return
	}
	patches, err := patch.PatchesFromDocument(string(mustJSON(d)))
	r.Eval()
	if err != nil {
		r.Violation("roundtrip-conversion-error", caseID, fmt.Sprintf("PatchesFromDocument(%s): %v", hx.Trunc(string(mustJSON(d)), 300), err), nil)
		return
	}
	out, err := composer.ApplyPatches(make(document.Document), patches)
	if err != nil {
		r.Violation("roundtrip-apply-error", caseID, err.Error(), nil)
		return
	}
	if doc.Norm(doc.Doc(out)) != doc.Norm(d) {
		r.Violation("roundtrip-differs", caseID, fmt.Sprintf("document %s converted to patches and applied to {} gives %s", hx.Trunc(doc.Norm(d), 400), hx.Trunc(doc.Norm(doc.Doc(out)), 400)), nil)
	}
	r.Nontrivial(caseID)
	r.Outcome("roundtrip")
}

// c17ContentRoundTrips converts documents whose member values and names carry every content class (format verbs, quotes,
// escapes, control characters, non-ASCII, astral characters, numbers, nested containers) and applies the patches to {}.
func c17ContentRoundTrips(r *hx.Run, composer *doccomposer.DocumentComposer) {
	strs := []string{"%", "100%", "%s %d %v %%", "%!d(MISSING)", "\"", "\\", "\"q\" \\ b", "\u0000\u001f", "\b\f\n\r\t", "\u007f", "\u2028\u2029", "é", "\U0001F600", "\ue000\uffff",
		"<>&'", "{}", "[\"x\"]", "null", " ", "", "https://example.com/a%20b?x=1&y=%7B%7D#f", "$&+,;=?@", "a.b", "a b", "0", "-", "#", "\u00a0"}
	vals := []interface{}{1.0, -1.5, 1e21, 1e-7, 9007199254740993.0, true, false, nil, []interface{}{}, map[string]interface{}{}, []interface{}{nil, []interface{}{map[string]interface{}{"%": "%"}}},
		map[string]interface{}{"a": map[string]interface{}{"b": []interface{}{1.0, "%d"}}}}
	base := func() doc.Doc {
		return doc.Doc{
			"publicKey":   []interface{}{fx.KeyEntry("k1", fx.NewKey(fx.P256, "c17/rt"), []interface{}{"authentication"})},
			"service":     []interface{}{fx.ServiceEntry("s1", "https://example.com/s1")},
			"alsoKnownAs": []interface{}{"https://alias.example/1"},
		}
	}
	type variant struct {
		id string
		d  doc.Doc
	}
	var vs []variant
	add := func(id string, f func(d doc.Doc)) {
		d := base()
		f(d)
		vs = append(vs, variant{id, d})
	}
	okName := func(s string) bool { return s != "" && !strings.ContainsAny(s, "~/") } // names that need no JSON-pointer escaping
	for i, str := range strs {
		str := str
		add(fmt.Sprintf("s%d|member-value", i), func(d doc.Doc) { d["extra"] = str })
		add(fmt.Sprintf("s%d|nested-value", i), func(d doc.Doc) {
			d["extra"] = map[string]interface{}{"a": []interface{}{str, map[string]interface{}{"b": str}}}
		})
		add(fmt.Sprintf("s%d|two-members", i), func(d doc.Doc) { d["extra"], d["zz"] = str, []interface{}{str} })
		if okName(str) {
			add(fmt.Sprintf("s%d|member-name", i), func(d doc.Doc) { d[str] = "v" })
			add(fmt.Sprintf("s%d|nested-name", i), func(d doc.Doc) { d["extra"] = map[string]interface{}{str: map[string]interface{}{str: 1.0}} })
		}
		add(fmt.Sprintf("s%d|service-endpoint", i), func(d doc.Doc) {
			d["service"].([]interface{})[0].(map[string]interface{})["serviceEndpoint"] = str
		})
		add(fmt.Sprintf("s%d|service-member", i), func(d doc.Doc) { d["service"].([]interface{})[0].(map[string]interface{})["extra"] = str })
		add(fmt.Sprintf("s%d|key-member", i), func(d doc.Doc) { d["publicKey"].([]interface{})[0].(map[string]interface{})["extra"] = str })
		add(fmt.Sprintf("s%d|alias", i), func(d doc.Doc) { d["alsoKnownAs"] = []interface{}{str, "https://alias.example/2"} })
		add(fmt.Sprintf("s%d|second-service", i), func(d doc.Doc) {
			d["service"] = append(d["service"].([]interface{}), map[string]interface{}{"id": "s2", "type": str, "serviceEndpoint": []interface{}{str, map[string]interface{}{"u": str}}})
		})
	}
	for i, v := range vals {
		v := v
		add(fmt.Sprintf("v%d|member-value", i), func(d doc.Doc) { d["extra"] = v })
		add(fmt.Sprintf("v%d|three-members", i), func(d doc.Doc) { d["a"], d["b"], d["c"] = v, []interface{}{v}, map[string]interface{}{"v": v} })
		add(fmt.Sprintf("v%d|service-member", i), func(d doc.Doc) { d["service"].([]interface{})[0].(map[string]interface{})["extra"] = v })
		add(fmt.Sprintf("v%d|key-member", i), func(d doc.Doc) { d["publicKey"].([]interface{})[0].(map[string]interface{})["extra"] = v })
	}
	hx.ParallelFor(len(vs), func(i int) {
		r.State()
		r.Trans(1)
		c17RoundTrip(r, composer, vs[i].d, "content|"+vs[i].id)
	})
	r.Extra["content_round_trips"] = len(vs)
}

// c17Sized applies add / remove patches to documents whose sections hold 1..9 entries and compares with ref/doc.
func c17Sized(r *hx.Run, composer *doccomposer.DocumentComposer) {
	key := func(id, seed string, purposes ...interface{}) map[string]interface{} {
		return fx.KeyEntry(id, fx.NewKey(fx.P256, "c17/sized/"+seed), purposes)
	}
	svc := func(id, typ string) map[string]interface{} {
		return map[string]interface{}{"id": id, "type": typ, "serviceEndpoint": "https://example.com/" + id + "/" + typ}
	}
	type job struct {
		id      string
		d       doc.Doc
		patches []interface{}
	}
	var jobs []job
	for n := 1; n <= 9; n++ {
		d := doc.Doc{}
		var ks, ss, as []interface{}
		for i := 0; i < n; i++ {
			ks = append(ks, key(fmt.Sprintf("k%d", i), "old", "authentication"))
			ss = append(ss, svc(fmt.Sprintf("s%d", i), "old"))
			as = append(as, fmt.Sprintf("https://a%d.example", i))
		}
		d["publicKey"], d["service"], d["alsoKnownAs"] = ks, ss, as
		addP := func(sec string, entries ...interface{}) interface{} {
			switch sec {
			case "k":
				return map[string]interface{}{"action": "add-public-keys", "publicKeys": entries}
			case "s":
				return map[string]interface{}{"action": "add-services", "services": entries}
			}
			return map[string]interface{}{"action": "add-also-known-as", "uris": entries}
		}
		rmP := func(sec string, ids ...interface{}) interface{} {
			switch sec {
			case "k":
				return map[string]interface{}{"action": "remove-public-keys", "ids": ids}
			case "s":
				return map[string]interface{}{"action": "remove-services", "ids": ids}
			}
			return map[string]interface{}{"action": "remove-also-known-as", "uris": ids}
		}
		for _, sec := range []string{"k", "s", "a"} {
			mk := func(i int, changed bool) (entry interface{}, id interface{}) {
				switch sec {
				case "k":
					if i < 0 {
						return key(fmt.Sprintf("new%d", -i), "new"), fmt.Sprintf("new%d", -i)
					}
					if changed {
						return key(fmt.Sprintf("k%d", i), "changed", "assertionMethod"), fmt.Sprintf("k%d", i)
					}
					return key(fmt.Sprintf("k%d", i), "old", "authentication"), fmt.Sprintf("k%d", i)
				case "s":
					if i < 0 {
						return svc(fmt.Sprintf("new%d", -i), "new"), fmt.Sprintf("new%d", -i)
					}
					if changed {
						return svc(fmt.Sprintf("s%d", i), "changed"), fmt.Sprintf("s%d", i)
					}
					return svc(fmt.Sprintf("s%d", i), "old"), fmt.Sprintf("s%d", i)
				}
				if i < 0 {
					return fmt.Sprintf("https://new%d.example", -i), fmt.Sprintf("https://new%d.example", -i)
				}
				return fmt.Sprintf("https://a%d.example", i), fmt.Sprintf("https://a%d.example", i)
			}
			n1, _ := mk(-1, false)
			n2, _ := mk(-2, false)
			// removal lists LONGER than the section (absent ids are ignored, however many there are): only absent ids; one
			// present id among n, n+1 and 2n+1 absent ones, first / in the middle / last
			for _, extra := range []int{n, n + 1, 2*n + 1} {
				var absent []interface{}
				for a := 1; a <= extra; a++ {
					_, ida := mk(-a, false)
					absent = append(absent, ida)
				}
				jobs = append(jobs, job{fmt.Sprintf("sized|n=%d|%s|remove-only-absent|extra=%d", n, sec, extra), d, []interface{}{rmP(sec, absent...)}})
				_, idPresent := mk(n-1, true)
				for _, pos := range []int{0, extra / 2, extra} {
					ids := append(append(append([]interface{}{}, absent[:pos]...), idPresent), absent[pos:]...)
					jobs = append(jobs, job{fmt.Sprintf("sized|n=%d|%s|remove-one-among-absent|extra=%d|pos=%d", n, sec, extra, pos), d, []interface{}{rmP(sec, ids...)}})
				}
			}
			for i := 0; i < n; i++ {
				ei, idi := mk(i, true)
				tag := fmt.Sprintf("sized|n=%d|%s|i=%d|", n, sec, i)
				jobs = append(jobs,
					job{tag + "new,existing", d, []interface{}{addP(sec, n1, ei)}},
					job{tag + "existing,new", d, []interface{}{addP(sec, ei, n1)}},
					job{tag + "new,new,existing", d, []interface{}{addP(sec, n1, n2, ei)}},
					job{tag + "new,existing,new", d, []interface{}{addP(sec, n1, ei, n2)}},
					job{tag + "existing-only", d, []interface{}{addP(sec, ei)}},
					job{tag + "remove", d, []interface{}{rmP(sec, idi)}},
					job{tag + "remove,add-new", d, []interface{}{rmP(sec, idi), addP(sec, n1)}},
					job{tag + "add-new,remove", d, []interface{}{addP(sec, n1), rmP(sec, idi)}},
					job{tag + "remove,re-add", d, []interface{}{rmP(sec, idi), addP(sec, ei)}})
				for j := 0; j < n; j++ {
					if j != i {
						ej, idj := mk(j, true)
						jobs = append(jobs, job{fmt.Sprintf("%sexisting-pair|j=%d", tag, j), d, []interface{}{addP(sec, ei, n1, ej)}},
							job{fmt.Sprintf("%sremove-pair|j=%d", tag, j), d, []interface{}{rmP(sec, idi, idj)}})
					}
				}
			}
		}
	}
	hx.ParallelFor(len(jobs), func(ji int) {
		j := jobs[ji]
		if !r.Want(j.id) {
			return
		}
		snapshot := string(mustJSON(j.d))
		in := document.Document(doc.Clone(j.d).(doc.Doc))
		out, err := composer.ApplyPatches(in, toPatches(j.patches))
		r.Eval()
		r.State()
		r.Trans(1)
		r.Nontrivial(j.id)
		want, werr := doc.ApplyAll(j.d, j.patches)
		if string(mustJSON(in)) != snapshot {
			r.Violation("input-modified:sized", j.id, "input document changed", nil)
		}
		if (err == nil) != (werr == nil) || (err == nil && doc.Norm(doc.Doc(out)) != doc.Norm(want)) {
			r.Violation("ordered-set-semantics:sized", j.id, fmt.Sprintf("patches %s on a document with that many entries\n  impl: %s (err=%v)\n  ref : %s (err=%v)", hx.Trunc(string(mustJSON(j.patches)), 300),
				hx.Trunc(doc.Norm(doc.Doc(out)), 500), err, hx.Trunc(doc.Norm(want), 500), werr), nil)
		}
	})
	r.Extra["sized_cases"] = len(jobs)
}
