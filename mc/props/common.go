// Package props holds one decision procedure per property.
package props

import (
	"encoding/json"
	"fmt"
	"regexp"
	"sort"
	"strings"
	"sync/atomic"

	"github.com/trustbloc/sidetree-core-go/pkg/api/operation"
	"github.com/trustbloc/sidetree-core-go/pkg/api/protocol"
	"github.com/trustbloc/sidetree-core-go/pkg/document"
	"github.com/trustbloc/sidetree-core-go/pkg/processor"

	"verif/mc/fx"
	"verif/mc/hx"
	"verif/mc/ref/doc"
	"verif/mc/ref/sidetree"
)

// Check is a property decision procedure.
type Check func(r *hx.Run)

// Registry maps property ids to checks.
var Registry = map[string]Check{}

// Level is the evidence level per property.
var Level = map[string]string{}

// RacePass maps property ids to a free-running supporting pass (run from a binary built with -race and without the
// scheduler overlay); it returns a process exit code.
var RacePass = map[string]func() int{}

// Workers maps property ids to the request handler run inside crash-isolated worker subprocesses.
var Workers = map[string]func(req []byte) []byte{}

func register(id string, c Check) {
	Registry[id] = c
	Level[id] = "model_checking"
}

// Result is the compared projection of a resolution.
type Result struct {
	Err       bool
	Doc       string
	Upd, Rec  string
	Deact     bool
	VersionID string
	Canonical string
	Equiv     string
	Origin    string
	Created   uint64
	Updated   uint64
	LastT     uint64
	LastN     uint64
}

func (r Result) String() string {
	if r.Err {
		return "ERROR"
	}
	return fmt.Sprintf("doc=%s upd=%s rec=%s deact=%v ver=%q canon=%q equiv=%s origin=%s created=%d updated=%d last=%d.%d",
		r.Doc, short(r.Upd), short(r.Rec), r.Deact, r.VersionID, r.Canonical, r.Equiv, r.Origin, r.Created, r.Updated, r.LastT, r.LastN)
}

// Core returns the projection restricted to document, commitments and deactivation flag.
func (r Result) Core() string {
	if r.Err {
		return "ERROR"
	}
	return fmt.Sprintf("doc=%s upd=%s rec=%s deact=%v", r.Doc, short(r.Upd), short(r.Rec), r.Deact)
}

var idRe = regexp.MustCompile(`"id":"([^"]*)"`)

// Abstract is a short label of the result class (for outcome histograms).
func (r Result) Abstract() string {
	if r.Err {
		return "ERROR"
	}
	var ids []string
	for _, m := range idRe.FindAllStringSubmatch(r.Doc, -1) {
		ids = append(ids, m[1])
	}
	return fmt.Sprintf("ids=%s upd=%v rec=%v deact=%v", strings.Join(ids, ","), r.Upd != "", r.Rec != "", r.Deact)
}

func short(s string) string {
	if len(s) > 10 {
		return s[len(s)-8:]
	}
	return s
}

func jsonStr(v interface{}) string {
	if v == nil {
		return "null"
	}
	b, err := json.Marshal(v)
	if err != nil {
		return "<" + err.Error() + ">"
	}
	return string(b)
}

// ProjectImpl projects the implementation's resolution model.
func ProjectImpl(rm *protocol.ResolutionModel, err error) Result {
	if err != nil || rm == nil {
		return Result{Err: true}
	}
	return Result{Doc: doc.Norm(doc.Doc(rm.Doc)), Upd: rm.UpdateCommitment, Rec: rm.RecoveryCommitment, Deact: rm.Deactivated,
		VersionID: rm.VersionID, Canonical: rm.CanonicalReference, Equiv: strings.Join(rm.EquivalentReferences, ","),
		Origin: jsonStr(rm.AnchorOrigin), Created: rm.CreatedTime, Updated: rm.UpdatedTime,
		LastT: rm.LastOperationTransactionTime, LastN: rm.LastOperationTransactionNumber}
}

// ProjectModel projects the reference model's state.
func ProjectModel(st *sidetree.State, err error) Result {
	if err != nil || st == nil {
		return Result{Err: true}
	}
	return Result{Doc: doc.Norm(st.Doc), Upd: st.Upd, Rec: st.Rec, Deact: st.Deactivated, VersionID: st.VersionID,
		Canonical: st.Canonical, Equiv: strings.Join(st.Equiv, ","), Origin: jsonStr(st.AnchorOrigin),
		Created: st.Created, Updated: st.Updated, LastT: st.LastT, LastN: st.LastN}
}

type unpubStore []*operation.AnchoredOperation

func (s unpubStore) Get(string) ([]*operation.AnchoredOperation, error) {
	if len(s) == 0 {
		return nil, fmt.Errorf("not found")
	}
	out := make([]*operation.AnchoredOperation, len(s))
	for i, op := range s {
		c := *op
		out[i] = &c
	}
	return out, nil
}

// ResolveImpl resolves the placements (in the given store order) with the real processor.
func ResolveImpl(client protocol.Client, suffix string, placed []fx.Placed, opts ...document.ResolutionOption) (*protocol.ResolutionModel, error) {
	var pub fx.SliceStore
	var unpub unpubStore
	for _, pl := range placed {
		ao := pl.Anchored(suffix)
		if pl.Published {
			pub = append(pub, ao)
		} else {
			unpub = append(unpub, ao)
		}
	}
	var popts []processor.Option
	if len(unpub) > 0 {
		popts = append(popts, processor.WithUnpublishedOperationStore(unpub))
	}
	p := processor.New("verif", pub, client, popts...)
	return p.Resolve(suffix, opts...)
}

// ResolveImplTwice resolves with one processor instance twice (a deployment keeps one processor for every resolution).
func ResolveImplTwice(client protocol.Client, suffix string, placed []fx.Placed) (rm1 *protocol.ResolutionModel, err1 error, rm2 *protocol.ResolutionModel, err2 error) {
	var pub fx.SliceStore
	var unpub unpubStore
	for _, pl := range placed {
		ao := pl.Anchored(suffix)
		if pl.Published {
			pub = append(pub, ao)
		} else {
			unpub = append(unpub, ao)
		}
	}
	var popts []processor.Option
	if len(unpub) > 0 {
		popts = append(popts, processor.WithUnpublishedOperationStore(unpub))
	}
	p := processor.New("verif", pub, client, popts...)
	rm1, err1 = p.Resolve(suffix)
	rm2, err2 = p.Resolve(suffix)
	return
}

// ResolveModel resolves the placements with the reference model.
func ResolveModel(placed []fx.Placed, cut *sidetree.Cut, maxDelta uint64) (*sidetree.State, error) {
	ops := make([]*sidetree.Op, len(placed))
	for i, pl := range placed {
		ops[i] = pl.Abstract()
	}
	return sidetree.Resolve(ops, cut, maxDelta)
}

// HistKey is the canonical key of a set of placements.
func HistKey(placed []fx.Placed) string {
	ks := make([]string, len(placed))
	for i, pl := range placed {
		ks[i] = pl.Key()
	}
	sort.Strings(ks)
	return strings.Join(ks, " ")
}

// Coord is an anchoring coordinate.
type Coord struct{ T, N uint64 }

// stdClient returns a single-version client with the default protocol.
func stdClient() (*fx.Client, *fx.Version) {
	v := fx.NewVersion(fx.DefaultProtocol(), nil)
	return fx.NewClient(v), v
}

// hostileSecondVersion returns a client with v in force from time 0 and, from the given genesis time on, a version under
// whose rules none of the harness' operations is valid (other hash / signature / key algorithms, tiny size limits, another
// anchoring-window delta). Operations carry the protocol version they were batched under (0): an anchored operation must be
// interpreted under that version whatever version is in force at its anchoring time.
func hostileSecondVersion(v *fx.Version, genesis uint64) *fx.Client {
	hostile := fx.DefaultProtocol()
	hostile.GenesisTime = genesis
	hostile.MultihashAlgorithms = []uint{fx.SHA512}
	hostile.SignatureAlgorithms = []string{"ES256K"}
	hostile.KeyAlgorithms = []string{fx.Secp256k1}
	hostile.MaxOperationSize, hostile.MaxDeltaSize, hostile.MaxOperationHashLength = 60, 30, 40
	hostile.Patches = []string{"replace"}
	hostile.MaxOperationTimeDelta = v.P.MaxOperationTimeDelta + 100000
	c := fx.NewClient(v, fx.NewVersion(hostile, nil))
	c.SetCurrent(v)
	return c
}

// wideGrid: anchoring coordinates that need the full width of uint64 (differences of 2^63 and more between times and between
// numbers): ordering is by the unsigned values.
var wideGrid = []Coord{{1, 0}, {1, 1<<63 | 1}, {1<<63 + 5, 0}, {1<<63 + 5, 3}, {1<<64 - 2, 1}}

// flakyClient fails exactly the failAt-th protocol-version lookup (counted over the client's life) and serves all others.
type flakyClient struct {
	protocol.Client
	failAt int
	n      *int32
}

func (c flakyClient) Get(t uint64) (protocol.Version, error) {
	if int(atomic.AddInt32(c.n, 1)) == c.failAt {
		return nil, fmt.Errorf("injected protocol-version lookup failure #%d", c.failAt)
	}
	return c.Client.Get(t)
}

// flakySweep resolves the placements once for every k in 1..maxK with the k-th protocol-version lookup of that resolution
// failing. A failed lookup makes ONE operation uninterpretable for one step; the result must therefore be an error or the
// fault-free result of the history with at most one operation left out (allowed), whatever the lookup position.
func flakySweep(r *hx.Run, class, caseID string, client protocol.Client, suffix string, all []fx.Placed, allowed map[Result]bool, maxK int) {
	for k := 1; k <= maxK; k++ {
		var n int32
		rm, err := ResolveImpl(flakyClient{client, k, &n}, suffix, all)
		r.Eval()
		if int(n) < k {
			break // fewer lookups than k: later positions change nothing
		}
		got := ProjectImpl(rm, err)
		if got.Err || allowed[got] {
			continue
		}
		var al []string
		for a := range allowed {
			al = append(al, a.String())
		}
		sort.Strings(al)
		r.Violation(class, fmt.Sprintf("%s|lookup#%d", caseID, k),
			fmt.Sprintf("history %v with protocol-version lookup #%d of the resolution failing once: the result is neither an error nor the result of the history with at most one operation left out\n  got    : %s\n  allowed: %s", placedDesc(all), k, got, strings.Join(al, "\n           ")), nil)
		return
	}
}

// versionFailClient is a protocol client whose lookup fails for one protocol version (a version this node does not know).
type versionFailClient struct {
	*fx.Client
	bad uint64
}

func (c versionFailClient) Get(t uint64) (protocol.Version, error) {
	if t == c.bad {
		return nil, fmt.Errorf("protocol parameters are not defined for protocol version %d", t)
	}
	return c.Client.Get(t)
}

func opIDs(p *fx.Pool, pred func(*fx.PoolOp) bool) []string {
	var out []string
	for _, id := range p.Order {
		if pred(p.Ops[id]) {
			out = append(out, id)
		}
	}
	return out
}

// combos calls f with every k-subset (as index slice) of n items.
func combos(n, k int, f func(idx []int)) {
	idx := make([]int, k)
	var rec func(start, d int)
	rec = func(start, d int) {
		if d == k {
			f(idx)
			return
		}
		for i := start; i < n; i++ {
			idx[d] = i
			rec(i+1, d+1)
		}
	}
	rec(0, 0)
}

// tuples calls f with every k-tuple over n items (with repetition).
func tuples(n, k int, f func(idx []int)) {
	idx := make([]int, k)
	var rec func(d int)
	rec = func(d int) {
		if d == k {
			f(idx)
			return
		}
		for i := 0; i < n; i++ {
			idx[d] = i
			rec(d + 1)
		}
	}
	rec(0)
}

// perms calls f with every permutation of 0..n-1.
func perms(n int, f func(p []int)) {
	p := make([]int, n)
	for i := range p {
		p[i] = i
	}
	var rec func(k int)
	rec = func(k int) {
		if k == n {
			f(p)
			return
		}
		for i := k; i < n; i++ {
			p[k], p[i] = p[i], p[k]
			rec(k + 1)
			p[k], p[i] = p[i], p[k]
		}
	}
	rec(0)
}
