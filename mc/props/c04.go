package props

import (
	"fmt"
	"sync"

	"github.com/trustbloc/sidetree-core-go/pkg/api/operation"
	"github.com/trustbloc/sidetree-core-go/pkg/dochandler"
	"github.com/trustbloc/sidetree-core-go/pkg/processor"

	"verif/mc/fx"
	"verif/mc/hx"
)

func init() { register("C04", c04) }

type recWriter struct {
	mu  sync.Mutex
	ops []*operation.QueuedOperation
}

func (w *recWriter) Add(op *operation.QueuedOperation, _ uint64) error {
	w.mu.Lock()
	w.ops = append(w.ops, op)
	w.mu.Unlock()
	return nil
}

type recUnpub struct {
	mu   sync.Mutex
	puts int
	dels int
}

func (u *recUnpub) Put(*operation.AnchoredOperation) error {
	u.mu.Lock()
	u.puts++
	u.mu.Unlock()
	return nil
}
func (u *recUnpub) Delete(*operation.AnchoredOperation) error {
	u.mu.Lock()
	u.dels++
	u.mu.Unlock()
	return nil
}

func c04(r *hx.Run) {
	fx.Quiet()
	client, v := stdClient()
	delta := v.P.MaxOperationTimeDelta
	r.Rule = "(i) every history of <=3 operations after the create (chain-building alphabet, coordinates 2.0,2.1,3.0) that the reference (and, checked, the real processor) resolves as deactivated is extended by every 1 (all pool operations incl. forged and creates; anchored later, or unpublished with a later / earlier time stamp) and every 2 (legitimate alphabet; thorough: all) later-anchored operations: result must stay deactivated, empty, without commitments and otherwise unchanged (also when an operation of the deactivated history is supplied by the caller through WithAdditionalOperations while a later recover / create sits in the store); (ii) for each such state a real DocumentHandler with its default decorator must refuse every non-create request and leave queue and unpublished store untouched; (iii) for every history with a recover, removing every subset of updates anchored at or before the last applied recover must not change the result; (v) every history of <=2 operations after a create whose document also carries an alias and a foreign member equals the reference (a recover leaves nothing of them); (iv) every history of <=3 published / unpublished operations over updates and recovers that re-commit to an update commitment used before equals the reference. Non-trivial: distinct (base state, extension) pairs whose extension parses."
	pool := fx.NewPool(fx.Ed25519, fx.SHA256, "ok")
	all := opIDs(pool, func(*fx.PoolOp) bool { return true })
	legit := opIDs(pool, isLegit)
	// R01~w / R01~h leave an empty document with advanced commitments: a deactivate must take effect in that state too
	base := []string{"U01", "U12", "U01b", "R01", "R01b", "R12", "D0", "D1", "D1b", "D2", "V01", "R01~a", "D0~w", "R01~h", "R01~w"}
	fixedC := []fx.Placed{{Op: pool.Get("C"), Time: 1, Num: 0, Published: true}}
	twoVer := hostileSecondVersion(v, 2)
	e := &histEnum{pool: pool, alpha: base, coords: []Coord{{2, 0}, {2, 1}, {3, 0}}, depth: 3, pubModes: "p", fixed: fixedC}
	var mu sync.Mutex
	var deactStates [][]fx.Placed
	var recoverStates [][]fx.Placed
	e.run(r, func(placed []fx.Placed) {
		rm, err := ResolveImpl(client, pool.Suffix, placed)
		r.Eval()
		if err != nil {
			return
		}
		st, _ := ResolveModel(placed, nil, delta)
		// the same history while a later protocol version (hostile to every operation) is in force from time 2: the operations were
		// batched under version 0 and must take effect exactly as before - a deactivate is not lost at a protocol upgrade
		if len(HistKey(placed))%2 == 0 {
			rm2, err2 := ResolveImpl(twoVer, pool.Suffix, placed)
			r.Eval()
			if a, b := ProjectImpl(rm2, err2), ProjectImpl(rm, err); a != b {
				r.Violation("version-at-anchoring-time:"+diffFields(a, b), "base|"+HistKey(placed)+"|2ver",
					fmt.Sprintf("history %v (all batched under protocol version 0) resolves differently when a second protocol version is in force from time 2\n  one version : %s\n  two versions: %s", placedDesc(placed), b, a), nil)
			}
		}
		if st != nil && st.Deactivated != rm.Deactivated {
			// the base states are chosen by the reference: a deactivate that silently does not take effect must not shrink the search
			r.Violation(fmt.Sprintf("deactivation-differs-from-reference:impl=%v", rm.Deactivated), "base|"+HistKey(placed),
				fmt.Sprintf("history %v: the processor reports deactivated=%v, the reference %v", placedDesc(placed), rm.Deactivated, st.Deactivated), nil)
		}
		// histories in which the reference applies a recover: the whole result must be the reference's (the document consists of
		// the recover's own content plus later updates chained from it, nothing else)
		if st != nil {
			for _, id := range st.Applied {
				if pool.Get(id).Type == operation.TypeRecover {
					if impl, model := ProjectImpl(rm, err), ProjectModel(st, nil); impl != model {
						r.Violation("recover-state-differs-from-reference:"+diffFields(impl, model), "base|"+HistKey(placed)+"|model",
							fmt.Sprintf("history %v\n  impl : %s\n  model: %s", placedDesc(placed), impl, model), nil)
					}
					break
				}
			}
		}
		mu.Lock()
		if st != nil && st.Deactivated {
			deactStates = append(deactStates, placed)
		}
		if st != nil {
			for _, id := range st.Applied {
				if pool.Get(id).Type == operation.TypeRecover {
					recoverStates = append(recoverStates, placed)
					break
				}
			}
		}
		mu.Unlock()
	})
	// (iv) recovers that re-commit to an update commitment used before, published or unpublished: every history is compared with
	// the reference (an update anchored at or before the recover's time stamp fits its commitment and must not be applied)
	{
		e2 := &histEnum{pool: pool, alpha: []string{"U01", "U12", "U01b", "R0>u0", "R0>u1", "R01", "V01"}, coords: []Coord{{2, 0}, {2, 1}, {3, 0}}, depth: 3, pubModes: "pu", fixed: fixedC}
		e2.run(r, func(placed []fx.Placed) {
			compareWithModel(r, "recommit", client, pool, placed, delta)
		})
		// the same with coordinates that need the full width of uint64 (a recover 2^63 and more after the update it supersedes)
		e3 := &histEnum{pool: pool, alpha: []string{"U01", "U12", "R0>u0", "R0>u1", "R01", "V01", "D0"}, coords: wideGrid[1:], depth: 3, pubModes: "p", fixed: fixedC}
		e3.run(r, func(placed []fx.Placed) {
			compareWithModel(r, "recommit-wide", client, pool, placed, delta)
		})
	}
	// (v) "solely the recover's own content": the created document also carries an alias and a foreign member (which a recover's
	// patches, applied to an empty document, do not name); every history of <=2 operations after that create equals the reference
	{
		pa := fx.NewPool(fx.Ed25519, fx.SHA256, "alias")
		e4 := &histEnum{pool: pa, alpha: []string{"R01", "R12", "R01~a", "R01~h", "U01", "U01a", "V01", "D0"}, coords: []Coord{{2, 0}, {2, 1}, {3, 0}}, depth: 2, pubModes: "pu",
			fixed: []fx.Placed{{Op: pa.Get("C"), Time: 1, Num: 0, Published: true}}}
		e4.run(r, func(placed []fx.Placed) {
			compareWithModel(r, "alias-create", client, pa, placed, delta)
		})
	}
	r.Extra["deactivated_base_states"] = len(deactStates)
	r.Extra["recover_base_states"] = len(recoverStates)
	if len(deactStates) == 0 {
		panic("no deactivated base state reached")
	}
	pairAlpha := legit
	if r.Tier == "thorough" {
		pairAlpha = all
	}
	// later anchoring positions: later times, and the same time as the last base operation with a higher number
	later := []Coord{{3, 1}, {3, 2}, {4, 0}, {4, 1}, {5, 0}}
	hx.ParallelFor(len(deactStates), func(si int) {
		if r.OverBudget() {
			return
		}
		s := deactStates[si]
		rm0, err0 := ResolveImpl(client, pool.Suffix, s)
		base := ProjectImpl(rm0, err0)
		r.State()
		if !base.Deact || base.Upd != "" || base.Rec != "" || base.Doc != "{}" {
			r.Violation("deactivated-state-not-empty", "deact|"+HistKey(s), "deactivated state has content: "+base.String(), nil)
		}
		try := func(ext []fx.Placed) {
			caseID := "deact|" + HistKey(s) + "|+|" + HistKey(ext)
			if !r.Want(caseID) {
				return
			}
			allp := append(append([]fx.Placed{}, ext...), s...)
			rm, err := ResolveImpl(client, pool.Suffix, allp)
			got := ProjectImpl(rm, err)
			r.Eval()
			r.Trans(1)
			r.Trace(1)
			for _, x := range ext {
				if x.Op.Abs.ParseOK {
					r.Nontrivial(caseID)
					break
				}
			}
			r.Outcome(fmt.Sprintf("ext%d deact=%v", len(ext), got.Deact))
			if got != base {
				r.Violation("deactivation-not-terminal:"+diffFields(got, base), caseID,
					fmt.Sprintf("deactivated history %v extended by %v\n  after : %s\n  before: %s", placedDesc(s), placedDesc(ext), got, base),
					map[string]interface{}{"state": placedDesc(s), "ext": placedDesc(ext)})
			}
		}
		for _, id := range all {
			for _, c := range later {
				try([]fx.Placed{{Op: pool.Get(id), Time: c.T, Num: c.N, Published: true}})
			}
			try([]fx.Placed{{Op: pool.Get(id), Time: 9, Num: 0, Published: false}})
			// an unpublished operation stamped before the anchored ones (a stale local copy, or a request submitted long before
			// the competing operation was anchored): anchored operations take precedence whatever its time stamp says
			try([]fx.Placed{{Op: pool.Get(id), Time: 1, Num: 0, Published: false}})
			try([]fx.Placed{{Op: pool.Get(id), Time: 2, Num: 0, Published: false}})
		}
		// each operation of the deactivated history in turn reaches the processor through WithAdditionalOperations (not yet in this
		// node's store) while a later recover / create is in the store: still deactivated
		if si%3 == 0 || r.Tier == "thorough" {
			for k := range s {
				for _, id := range all {
					if o := pool.Get(id); o.Type != operation.TypeRecover && o.Type != operation.TypeCreate {
						continue
					}
					caseID := fmt.Sprintf("deact|%s|moved=%d|+|%s@4.0p", HistKey(s), k, id)
					if !r.Want(caseID) {
						continue
					}
					withExt := append(append([]fx.Placed{}, s...), fx.Placed{Op: pool.Get(id), Time: 4, Num: 0, Published: true})
					rmM, errM := c02ResolveMoved(client, pool.Suffix, withExt, k)
					r.Eval()
					if gotM := ProjectImpl(rmM, errM); gotM != base {
						r.Violation("deactivation-not-terminal:operation-from-the-caller:"+diffFields(gotM, base), caseID,
							fmt.Sprintf("deactivated history %v with operation %d passed through WithAdditionalOperations and %s anchored later in the store\n  after : %s\n  before: %s", placedDesc(s), k, id, gotM, base), nil)
						break
					}
				}
			}
		}
		for _, a := range pairAlpha {
			if r.Tier == "quick" && si%6 != 0 {
				break
			}
			for _, b := range pairAlpha {
				try([]fx.Placed{{Op: pool.Get(a), Time: 4, Num: 0, Published: true}, {Op: pool.Get(b), Time: 5, Num: 0, Published: true}})
				if r.Tier == "thorough" || si%18 == 0 {
					try([]fx.Placed{{Op: pool.Get(a), Time: 3, Num: 2, Published: true}, {Op: pool.Get(b), Time: 3, Num: 1, Published: true}})
				}
			}
		}
		r.Sample(map[string]interface{}{"deactivated_state": placedDesc(s)})

		// (ii) document handler refuses new operations
		if si%4 == 0 || r.Tier == "thorough" {
			var pub fx.SliceStore
			for _, pl := range s {
				pub = append(pub, pl.Anchored(pool.Suffix))
			}
			proc := processor.New("verif", pub, client)
			w := &recWriter{}
			us := &recUnpub{}
			h := dochandler.New("did:sidetree", nil, client, w, proc, fx.Metrics,
				dochandler.WithUnpublishedOperationStore(us, []operation.Type{operation.TypeCreate, operation.TypeUpdate, operation.TypeRecover, operation.TypeDeactivate}))
			for _, id := range all {
				o := pool.Get(id)
				if o.Type == operation.TypeCreate {
					continue
				}
				caseID := "handler|" + HistKey(s) + "|" + id
				if !r.Want(caseID) {
					continue
				}
				_, err := h.ProcessOperation(o.Req, 0)
				r.Eval()
				r.Trans(1)
				if err == nil || len(w.ops) != 0 || us.puts != us.dels {
					r.Violation("handler-accepts-after-deactivate:"+string(o.Type), caseID,
						fmt.Sprintf("document handler accepted %s for deactivated DID (history %v): err=%v queued=%d unpublished puts=%d dels=%d", id, placedDesc(s), err, len(w.ops), us.puts, us.dels), nil)
					w.ops = nil
				}
			}
		}
	})

	// (iii) recover supersedes earlier updates
	hx.ParallelFor(len(recoverStates), func(si int) {
		if r.OverBudget() {
			return
		}
		s := recoverStates[si]
		st, _ := ResolveModel(s, nil, delta)
		// coordinate of the last applied recover
		var rt, rn uint64
		// find earliest placement of the last applied recover id
		lastRec := ""
		for _, id := range st.Applied {
			if pool.Get(id).Type == operation.TypeRecover {
				lastRec = id
			}
		}
		first := true
		for _, pl := range s {
			if pl.Op.ID == lastRec && (first || pl.Time < rt || (pl.Time == rt && pl.Num < rn)) {
				rt, rn, first = pl.Time, pl.Num, false
			}
		}
		var early []int
		for i, pl := range s {
			if pl.Op.Type == operation.TypeUpdate && (pl.Time < rt || (pl.Time == rt && pl.Num <= rn)) {
				early = append(early, i)
			}
		}
		rm0, err0 := ResolveImpl(client, pool.Suffix, s)
		base := ProjectImpl(rm0, err0)
		r.State()
		for mask := 1; mask < 1<<len(early); mask++ {
			drop := map[int]bool{}
			for b, idx := range early {
				if mask&(1<<b) != 0 {
					drop[idx] = true
				}
			}
			var kept []fx.Placed
			for i, pl := range s {
				if !drop[i] {
					kept = append(kept, pl)
				}
			}
			caseID := fmt.Sprintf("recover|%s|drop=%d", HistKey(s), mask)
			if !r.Want(caseID) {
				continue
			}
			rm, err := ResolveImpl(client, pool.Suffix, kept)
			got := ProjectImpl(rm, err)
			r.Eval()
			r.Trans(1)
			r.Trace(1)
			r.Nontrivial(caseID)
			if got != base {
				r.Violation("update-before-recover-applied:"+diffFields(got, base), caseID,
					fmt.Sprintf("history %v: removing updates anchored at or before the recover (%s@%d.%d) changes the result\n  with   : %s\n  without: %s", placedDesc(s), lastRec, rt, rn, base, got), nil)
			}
		}
	})
	r.Assumptions = append(r.Assumptions, "extensions are anchored after every operation of the base history (same time as the last base operation with a higher number, or later times) or are unpublished (stamped later or earlier than the anchored operations); they come first in the store's return order", "in quick, pairs of extensions run on every 6th and the document handler part on every 4th deactivated base state (all of them in thorough)")
}
