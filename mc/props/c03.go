package props

import (
	"fmt"
	"sort"
	"strings"

	"github.com/trustbloc/sidetree-core-go/pkg/api/protocol"

	"verif/mc/fx"
	"verif/mc/hx"
)

func init() { register("C03", c03) }

// histEnum enumerates every history that assigns, to every k-subset (k<=depth) of coords, every k-tuple of
// alphabet operations (published flag per pubMode), and calls f on all cores.
type histEnum struct {
	pool   *fx.Pool
	alpha  []string
	coords []Coord
	depth  int
	// pubModes: per placement, the publication flags to enumerate ("p" published only, "pu" both)
	pubModes string
	fixed    []fx.Placed // placements present in every history
}

func (h *histEnum) count() int64 {
	var total int64
	n := int64(len(h.alpha))
	if h.pubModes == "pu" {
		n *= 2
	}
	for k := 0; k <= h.depth && k <= len(h.coords); k++ {
		c := int64(1)
		for i := 0; i < k; i++ {
			c = c * int64(len(h.coords)-i) / int64(i+1)
		}
		p := int64(1)
		for i := 0; i < k; i++ {
			p *= n
		}
		total += c * p
	}
	return total
}

func (h *histEnum) run(r *hx.Run, f func(placed []fx.Placed)) {
	type job struct {
		coords []int
		first  int
	}
	nsym := len(h.alpha)
	if h.pubModes == "pu" {
		nsym *= 2
	}
	var jobs []job
	for k := 0; k <= h.depth && k <= len(h.coords); k++ {
		combos(len(h.coords), k, func(idx []int) {
			cs := append([]int(nil), idx...)
			if k == 0 {
				jobs = append(jobs, job{coords: cs, first: -1})
				return
			}
			for a := 0; a < nsym; a++ {
				jobs = append(jobs, job{coords: cs, first: a})
			}
		})
	}
	mk := func(sym int, c Coord) fx.Placed {
		pub := true
		id := sym
		if h.pubModes == "pu" {
			pub = sym%2 == 0
			id = sym / 2
		}
		return fx.Placed{Op: h.pool.Get(h.alpha[id]), Time: c.T, Num: c.N, Published: pub}
	}
	hx.ParallelFor(len(jobs), func(j int) {
		if r.OverBudget() {
			return
		}
		jb := jobs[j]
		k := len(jb.coords)
		if k == 0 {
			f(append([]fx.Placed(nil), h.fixed...))
			return
		}
		tuples(nsym, k-1, func(rest []int) {
			placed := make([]fx.Placed, 0, k+len(h.fixed))
			placed = append(placed, h.fixed...)
			placed = append(placed, mk(jb.first, h.coords[jb.coords[0]]))
			for i, s := range rest {
				placed = append(placed, mk(s, h.coords[jb.coords[i+1]]))
			}
			f(placed)
		})
	})
}

func diffFields(a, b Result) string {
	var d []string
	add := func(n string, x bool) {
		if x {
			d = append(d, n)
		}
	}
	add("Err", a.Err != b.Err)
	add("Doc", a.Doc != b.Doc)
	add("Upd", a.Upd != b.Upd)
	add("Rec", a.Rec != b.Rec)
	add("Deact", a.Deact != b.Deact)
	add("VersionID", a.VersionID != b.VersionID)
	add("Canonical", a.Canonical != b.Canonical)
	add("Equiv", a.Equiv != b.Equiv)
	add("Origin", a.Origin != b.Origin)
	add("Created", a.Created != b.Created)
	add("Updated", a.Updated != b.Updated)
	add("Last", a.LastT != b.LastT || a.LastN != b.LastN)
	return strings.Join(d, ",")
}

func opSet(placed []fx.Placed) string {
	var ids []string
	for _, pl := range placed {
		ids = append(ids, pl.Op.ID)
	}
	sort.Strings(ids)
	return strings.Join(ids, "+")
}

func placedDesc(placed []fx.Placed) []string {
	var out []string
	for _, pl := range placed {
		out = append(out, pl.Key())
	}
	return out
}

// compareWithModel resolves with implementation and model and reports a disagreement.
func compareWithModel(r *hx.Run, tag string, client protocol.Client, pool *fx.Pool, placed []fx.Placed, maxDelta uint64) {
	caseID := tag + ":" + HistKey(placed)
	if !r.Want(caseID) {
		return
	}
	done := r.Watch(caseID)
	var rm *protocol.ResolutionModel
	var err error
	if len(caseID)%3 == 0 {
		// a third of the states: the same processor instance resolves twice; both answers and the first answer re-read after
		// the second resolution must be the same
		var rm2 *protocol.ResolutionModel
		var err2 error
		rm, err, rm2, err2 = ResolveImplTwice(client, pool.Suffix, placed)
		first := ProjectImpl(rm, err)
		if second := ProjectImpl(rm2, err2); second != first {
			r.Violation("repeated-resolution-differs:"+diffFields(second, first), caseID+"|twice", fmt.Sprintf("history %v resolved twice by one processor\n  first : %s\n  second: %s", placedDesc(placed), first, second), nil)
		}
		r.Eval()
	} else {
		rm, err = ResolveImpl(client, pool.Suffix, placed)
	}
	done()
	impl := ProjectImpl(rm, err)
	st, merr := ResolveModel(placed, nil, maxDelta)
	model := ProjectModel(st, merr)
	r.Eval()
	r.State()
	r.Trans(int64(len(placed)))
	r.Trace(1)
	r.Outcome(model.Abstract())
	if st != nil && len(st.Applied) > 1 {
		r.Nontrivial(caseID)
	}
	if impl != model {
		d := diffFields(impl, model)
		r.Violation("model-mismatch:"+d+":"+opSet(placed), caseID,
			fmt.Sprintf("history %v (pool %s/%d/%s)\n  impl : %s\n  model: %s", placedDesc(placed), pool.KT, pool.Code, pool.Variant, impl, model),
			map[string]interface{}{"history": placedDesc(placed), "impl": impl.String(), "model": model.String()})
	}
	r.Sample(map[string]interface{}{"history": placedDesc(placed), "result": model.Abstract()})
}

func isLegit(o *fx.PoolOp) bool { return o.Kind == "legit" || o.Kind == "dupcreate" }

func c03(r *hx.Run) {
	fx.Quiet()
	client, v := stdClient()
	delta := v.P.MaxOperationTimeDelta
	r.Rule = "explicit-state search: states are sets of (pool operation, anchoring coordinate[, published]) placements; every state is resolved by the real processor/applier/parser/composer and by ref/sidetree and all result fields compared; a third of the states is resolved twice by one processor instance (identical answers required); for histories of <=2 operations after a valid / invalid create every single protocol-version lookup of the resolution is made to fail in turn: error, or the reference state of the history minus at most one operation. A state is non-trivial when the reference applies at least one operation after the create."
	grid4 := []Coord{{1, 0}, {1, 1}, {2, 0}, {2, 1}}
	grid5 := []Coord{{1, 0}, {1, 2}, {2, 0}, {2, 1}, {3, 0}}
	pool := fx.NewPool(fx.Ed25519, fx.SHA256, "ok")
	legit := opIDs(pool, isLegit)
	all := opIDs(pool, func(*fx.PoolOp) bool { return true })
	fixedC := []fx.Placed{{Op: pool.Get("C"), Time: 1, Num: 0, Published: true}}
	after := []Coord{{1, 1}, {2, 0}, {2, 1}, {3, 0}}

	type phase struct {
		tag    string
		e      *histEnum
		client protocol.Client // nil: the single-version client
		delta  uint64          // 0: the delta of the single-version client
	}
	var phases []phase
	// A: creates are part of the alphabet (no-create, late-create, several creates); depth 3
	phases = append(phases, phase{tag: "A", e: &histEnum{pool: pool, alpha: legit, coords: grid4, depth: 3, pubModes: "p"}})
	// B: everything incl. forged, create fixed first, depth 2
	phases = append(phases, phase{tag: "B", e: &histEnum{pool: pool, alpha: all, coords: after, depth: 2, pubModes: "p", fixed: fixedC}})
	// C: unpublished operations mixed in, legit alphabet, depth 2
	phases = append(phases, phase{tag: "C", e: &histEnum{pool: pool, alpha: legit, coords: grid4, depth: 2, pubModes: "pu"}})
	// D: other base-create variants and key types / hash algorithm, reduced alphabet depth 2 after the create
	for _, kt := range fx.KeyTypes {
		for _, code := range []uint{fx.SHA256, fx.SHA512} {
			for _, variant := range []string{"ok", "invalid", "applyfails", "alias"} {
				if kt == fx.Ed25519 && code == fx.SHA256 && variant == "ok" {
					continue
				}
				if variant == "alias" && !(kt == fx.Ed25519 && code == fx.SHA256) {
					continue
				}
				if r.Tier == "quick" && !(kt == fx.Ed25519 || (variant == "ok" && code == fx.SHA256) || (kt == fx.P256)) {
					continue
				}
				pl := fx.NewPool(kt, code, variant)
				al := opIDs(pl, isLegit)
				depth := 2
				if r.Tier == "quick" && kt != fx.Ed25519 {
					depth = 1
					if variant == "ok" {
						depth = 2
						al = []string{"U01", "U01b", "U12", "U01~w", "U01~p", "R01", "R12", "R01~h", "D0", "D1", "V01", "Fc(U01)", "Fc(R01)", "Fa(D0)"}
					}
				}
				phases = append(phases, phase{tag: fmt.Sprintf("D[%s/%d/%s]", kt, code, variant),
					e: &histEnum{pool: pl, alpha: al, coords: after, depth: depth, pubModes: "p",
						fixed: []fx.Placed{{Op: pl.Get("C"), Time: 1, Num: 0, Published: true}}}})
			}
		}
	}
	// V: two protocol versions. Every operation carries protocol version 0 (the version it was batched under) although a
	// second version, under whose rules none of the pool's operations is valid (other hash / signature / key algorithms, tiny
	// size limits), is in force from time 2 on: an anchored operation is interpreted under its own version, not under the
	// version of its anchoring time.
	{
		twoVer := hostileSecondVersion(v, 2)
		depthV := 2
		if r.Tier == "thorough" {
			depthV = 3
		}
		phases = append(phases, phase{"V", &histEnum{pool: pool, alpha: legit, coords: after, depth: depthV, pubModes: "p", fixed: fixedC}, twoVer, 0})
	}
	// W: explicit windows [1, 100] that are longer than the protocol's delta (1 here): a signed anchorUntil is taken as it is,
	// the delta only supplies a missing one - operations anchored at times 2 and 3 are inside their windows
	{
		pw := v.P
		pw.MaxOperationTimeDelta = 1
		depthW := 2
		if r.Tier == "thorough" {
			depthW = 3
		}
		phases = append(phases, phase{"W", &histEnum{pool: pool, alpha: []string{"U01i", "R01i", "D0i", "U01", "U12", "V01", "R01", "D0", "U01~w"}, coords: after, depth: depthW, pubModes: "p", fixed: fixedC},
			fx.NewClient(fx.NewVersion(pw, nil)), 1})
	}
	// X: one stored operation carries a protocol version the client cannot serve (the lookup fails): it is ignored, and the
	// failed lookup changes nothing else - in particular commitment cycles stay refused
	{
		junk := fx.Placed{Op: pool.Get("U01b"), Time: 1, Num: 2, Published: true, Version: 77, Unknown: true}
		depthX := 2
		if r.Tier == "thorough" {
			depthX = 3
		}
		cyc := []string{"U01", "U12", "U10", "U20", "U00", "U23", "R01", "R12", "R10", "R20", "R00", "D0", "V01", "U01~p"}
		phases = append(phases, phase{"X", &histEnum{pool: pool, alpha: cyc, coords: after, depth: depthX, pubModes: "p", fixed: []fx.Placed{fixedC[0], junk}},
			versionFailClient{client, 77}, 0})
	}
	// Z: coordinates that need the full width of uint64 (times and numbers 2^63 and more apart), creates in the alphabet
	{
		zAlpha := []string{"C", "C~h", "U01", "U01b", "U12", "R01", "R01b", "R0>u0", "V01", "D0", "D1", "U10"}
		depthZ := 3
		phases = append(phases, phase{tag: "Z", e: &histEnum{pool: pool, alpha: zAlpha, coords: wideGrid, depth: depthZ, pubModes: "p"}})
	}
	if r.Tier == "thorough" {
		// E: everything incl. forged at depth 3 after the create
		phases = append(phases, phase{tag: "E", e: &histEnum{pool: pool, alpha: all, coords: after, depth: 3, pubModes: "p", fixed: fixedC}})
		// F: depth 4 over the chain-building sub-alphabets, 5 coordinates
		upd := []string{"C", "C~h", "U01", "U01b", "U12", "U23", "U1b2", "U01~p", "U01~w", "U01~h", "U01~v", "U10", "U20", "U00"}
		full := []string{"C", "R01", "R01b", "R12", "R1b2", "R01~h", "R01~a", "R01~w", "R10", "R20", "D0", "D1", "D2", "V01", "W01", "U01"}
		phases = append(phases, phase{tag: "F1", e: &histEnum{pool: pool, alpha: upd, coords: grid5, depth: 4, pubModes: "p"}})
		phases = append(phases, phase{tag: "F2", e: &histEnum{pool: pool, alpha: full, coords: grid5, depth: 4, pubModes: "p"}})
		phases = append(phases, phase{tag: "G", e: &histEnum{pool: pool, alpha: legit, coords: grid4, depth: 3, pubModes: "pu"}})
	}
	planned := map[string]int64{}
	for _, ph := range phases {
		planned[ph.tag] = ph.e.count()
		ph := ph
		ph.e.run(r, func(placed []fx.Placed) {
			var cl protocol.Client = client
			if ph.client != nil {
				cl = ph.client
			}
			d := delta
			if ph.delta != 0 {
				d = ph.delta
			}
			compareWithModel(r, ph.tag, cl, ph.e.pool, placed, d)
		})
	}
	r.Extra["phases_planned_histories"] = planned

	// K: one protocol-version lookup of the resolution fails (every position in turn): the outcome is an error or the
	// reference state of the history with at most one operation left out - never anything else
	for _, variant := range []string{"ok", "invalid"} {
		pk := fx.NewPool(fx.Ed25519, fx.SHA256, variant)
		ek := &histEnum{pool: pk, alpha: []string{"U01", "U01b", "U12", "U10", "R01", "D0", "V01", "Fd(U01)", "Fc(U01)", "Fd(R01)", "C~h"}, coords: after, depth: 2, pubModes: "p",
			fixed: []fx.Placed{{Op: pk.Get("C"), Time: 1, Num: 0, Published: true}}}
		ek.run(r, func(placed []fx.Placed) {
			caseID := "K[" + variant + "]:" + HistKey(placed)
			if !r.Want(caseID) {
				return
			}
			allowed := map[Result]bool{}
			for leave := -1; leave < len(placed); leave++ {
				var h []fx.Placed
				for i, pl := range placed {
					if i != leave {
						h = append(h, pl)
					}
				}
				st, merr := ResolveModel(h, nil, delta)
				allowed[ProjectModel(st, merr)] = true
			}
			r.State()
			r.Nontrivial(caseID)
			flakySweep(r, "lookup-failure-changes-more-than-one-operation:"+variant, caseID, client, pk.Suffix, placed, allowed, 3*len(placed)+3)
		})
	}

	// long deterministic chains: termination and agreement beyond the search depth
	longChains(r, client, delta)
	r.Assumptions = append(r.Assumptions,
		"resolution results are compared on document (empty/absent sections identified), commitments, deactivated flag, version id, canonical/equivalent references, anchor origin, created/updated time and last transaction coordinates",
		"ref/sidetree and ref/doc are trusted; they do not import the code under test",
		"random long histories beyond the bound (named in the property's quantifier) are outside this technique; deterministic long chains are run instead")
}

// longChains builds update and recovery chains of length n with cycles interleaved.
func longChains(r *hx.Run, client protocol.Client, delta uint64) {
	if !r.Want("long") && r.Only != "" {
		return
	}
	const n = 40
	kt, code := fx.Ed25519, fx.SHA256
	keys := make([]*fx.Key, n+2)
	for i := range keys {
		keys[i] = fx.NewKey(kt, fmt.Sprintf("chain%d", i))
	}
	rk := fx.NewKey(kt, "chain-r0")
	req, suffix := fx.Create(&fx.CreateSpec{RecoveryCommit: fx.Commit(rk, code), UpdateCommit: fx.Commit(keys[0], code),
		Patches: []interface{}{fx.AddServicePatch("s0", "https://example.com/s0")}, Code: code})
	pool := &fx.Pool{KT: kt, Code: code, Variant: "chain", Suffix: suffix, Ops: map[string]*fx.PoolOp{}}
	var placed []fx.Placed
	createOp := &fx.PoolOp{ID: "C", Type: "create", Req: req}
	createOp.Abs.ID, createOp.Abs.Type, createOp.Abs.ParseOK = "C", "create", true
	createOp.Abs.NextUpdate, createOp.Abs.NextRecovery, createOp.Abs.Delta = fx.Commit(keys[0], code), fx.Commit(rk, code), "ok"
	createOp.Abs.Patches = []interface{}{fx.AddServicePatch("s0", "https://example.com/s0")}
	placed = append(placed, fx.Placed{Op: createOp, Time: 1, Num: 0, Published: true})
	for i := 0; i < n; i++ {
		mk := func(id string, next string, t uint64) {
			patches := []interface{}{fx.AddServicePatch(id, "https://example.com/"+id)}
			s := &fx.OpSpec{Type: "update", Suffix: suffix, SignKey: keys[i], NextUpdate: next, Patches: patches, Code: code}
			o := &fx.PoolOp{ID: id, Type: "update", Req: s.Build()}
			o.Abs.ID, o.Abs.Type, o.Abs.ParseOK, o.Abs.Authorized = id, "update", true, true
			o.Abs.Reveals, o.Abs.NextUpdate, o.Abs.Delta, o.Abs.Patches = fx.Commit(keys[i], code), next, "ok", patches
			placed = append(placed, fx.Placed{Op: o, Time: t, Num: uint64(i), Published: true})
		}
		// a cycle-closing competitor anchored *before* the legitimate continuation
		if i > 0 && i%3 == 0 {
			mk(fmt.Sprintf("cyc%d", i), fx.Commit(keys[i-2], code), uint64(2*i+1))
		}
		mk(fmt.Sprintf("u%d", i), fx.Commit(keys[i+1], code), uint64(2*i+2))
	}
	// present in reverse store order
	rev := make([]fx.Placed, len(placed))
	for i := range placed {
		rev[len(placed)-1-i] = placed[i]
	}
	compareWithModel(r, "long", client, pool, rev, delta)
}
