package props

import (
	"bytes"
	"crypto/ecdsa"
	"crypto/ed25519"
	"encoding/asn1"
	"encoding/base64"
	"encoding/json"
	"fmt"
	"math/big"
	"strings"

	"github.com/trustbloc/sidetree-core-go/pkg/jws"
	"github.com/trustbloc/sidetree-core-go/pkg/util/ecsigner"
	"github.com/trustbloc/sidetree-core-go/pkg/util/edsigner"
	"github.com/trustbloc/sidetree-core-go/pkg/util/pubkey"
	"github.com/trustbloc/sidetree-core-go/pkg/verifhooks"

	"verif/mc/fx"
	"verif/mc/hx"
	"verif/mc/ref/jcs"
)

func init() { register("C09", c09) }

// c09HeaderlessSigner signs like the wrapped signer but contributes no protected headers.
type c09HeaderlessSigner struct {
	inner interface {
		Sign(data []byte) ([]byte, error)
		Headers() jws.Headers
	}
}

func (s c09HeaderlessSigner) Sign(data []byte) ([]byte, error) { return s.inner.Sign(data) }
func (s c09HeaderlessSigner) Headers() jws.Headers             { return nil }

// verifyNoPanic calls VerifyJWS and converts a panic into a violation.
func verifyNoPanic(r *hx.Run, caseID, compact string, jwk *jws.JWK) (ok bool, err error) {
	defer func() {
		if p := recover(); p != nil {
			r.Violation("panic:VerifyJWS", caseID, fmt.Sprintf("VerifyJWS panicked on %q with key %+v: %v", hx.Trunc(compact, 200), jwk, p), map[string]interface{}{"jws": compact, "jwk": jwk})
			ok, err = false, fmt.Errorf("panic")
		}
	}()
	_, err = verifhooks.VerifyJWS(compact, jwk)
	r.Eval()
	r.Trans(1)
	return err == nil, err
}

func b64d(s string) []byte {
	b, err := base64.RawURLEncoding.DecodeString(s)
	if err != nil {
		panic(err)
	}
	return b
}

func c09(r *hx.Run) {
	r.Rule = "for each of the 5 key types: compact JWS produced independently (fx.CompactJWS) and by the library's own signers (SignModel, SignPayload, and NewJWS with every split of the headers between the caller's protected set and the signer's headers, the caller's map being modified between signing and serialization) over {alg}, {alg,kid}, {alg,b64:false} headers x 3 payloads must verify under the matching JWK; every single-bit flip of every byte of the decoded payload and signature, every header byte substitution that changes the parsed header, every foreign key (9 others), and the signature classes (empty, +-1, one byte inserted at or removed from every position, half, double, r/s zero, =n, swapped, DER) must be rejected while (r, n-s) verifies; grammar of malformed compact strings / headers / JWKs must give an error and never a panic. Non-trivial: distinct (JWS, key) pairs that reach signature verification."
	payloads := [][]byte{[]byte(`{"a":1}`), []byte(`{"deltaHash":"EiAbc","updateKey":{"crv":"Ed25519","kty":"OKP","x":"AA"}}`), bytes.Repeat([]byte("x"), 300)}
	allKeys := map[string][]*fx.Key{}
	var flat []*fx.Key
	for _, kt := range fx.KeyTypes {
		for _, n := range []string{"c09/a", "c09/b"} {
			k := fx.NewKey(kt, n)
			allKeys[kt] = append(allKeys[kt], k)
			flat = append(flat, k)
		}
	}
	subs := []byte{0x20, '"', 'a', 'Z', '0', '{', 0x7f}
	if r.Tier == "thorough" {
		subs = nil
		for b := 0; b < 256; b++ {
			subs = append(subs, byte(b))
		}
	}
	type job struct {
		kt string
		hi int
		pi int
	}
	var jobs []job
	for _, kt := range fx.KeyTypes {
		for hi := 0; hi < 3; hi++ {
			for pi := range payloads {
				jobs = append(jobs, job{kt, hi, pi})
			}
		}
	}
	hx.ParallelFor(len(jobs), func(ji int) {
		j := jobs[ji]
		key := allKeys[j.kt][0]
		payload := payloads[j.pi]
		tag := fmt.Sprintf("%s|h%d|p%d", j.kt, j.hi, j.pi)
		var opts *fx.JWSOpts
		switch j.hi {
		case 1:
			opts = &fx.JWSOpts{Kid: "key-1"}
		case 2:
			opts = nil // b64:false handled below
		}
		var compact string
		if j.hi == 2 {
			// RFC 7797 unencoded payload: signing input is header '.' raw payload
			hb := jcs.MustCanon(map[string]interface{}{"alg": fx.AlgFor(j.kt), "b64": false})
			input := fx.B64(hb) + "." + string(payload)
			compact = fx.B64(hb) + "." + fx.B64(payload) + "." + fx.B64(key.Sign([]byte(input)))
		} else {
			compact = fx.CompactJWS(key, payload, opts)
		}
		r.State()
		// --- positive: independent construction verifies
		if ok, err := verifyNoPanic(r, tag+"|pos-ref", compact, key.JWK); !ok {
			r.Violation("rejects-genuine:"+j.kt+fmt.Sprintf(":h%d", j.hi), tag+"|pos-ref", fmt.Sprintf("independently built JWS does not verify under the matching key: %v", err), map[string]interface{}{"jws": compact, "jwk": key.JWK})
			return
		}
		r.Nontrivial(tag + "|pos")
		r.Outcome("genuine verifies")
		parts := strings.Split(compact, ".")
		hb, pb, sb := b64d(parts[0]), b64d(parts[1]), b64d(parts[2])
		mk := func(h, p, s []byte) string { return fx.B64(h) + "." + fx.B64(p) + "." + fx.B64(s) }
		reject := func(class, id, c string, k *jws.JWK, what string) {
			caseID := tag + "|" + id
			if !r.Want(caseID) {
				return
			}
			ok, _ := verifyNoPanic(r, caseID, c, k)
			r.Nontrivial(caseID)
			if ok {
				r.Violation("accepts-"+class+":"+j.kt, caseID, fmt.Sprintf("%s was accepted (%s header set %d)", what, j.kt, j.hi), map[string]interface{}{"jws": c, "jwk": k})
			} else {
				r.Outcome(class + " rejected")
			}
		}
		// --- payload and signature bit flips
		for i := range pb {
			if j.pi == 2 && i%17 != 0 && r.Tier == "quick" {
				continue
			}
			for bit := 0; bit < 8; bit++ {
				m := append([]byte{}, pb...)
				m[i] ^= 1 << uint(bit)
				reject("altered-payload", fmt.Sprintf("pflip%d.%d", i, bit), mk(hb, m, sb), key.JWK, "payload with one bit flipped")
			}
		}
		for i := range sb {
			for bit := 0; bit < 8; bit++ {
				m := append([]byte{}, sb...)
				m[i] ^= 1 << uint(bit)
				reject("altered-signature", fmt.Sprintf("sflip%d.%d", i, bit), mk(hb, pb, m), key.JWK, "signature with one bit flipped")
			}
		}
		// --- header byte substitutions
		origHdr, _ := jcs.Parse(hb)
		for i := range hb {
			for _, sub := range subs {
				if hb[i] == sub {
					continue
				}
				m := append([]byte{}, hb...)
				m[i] = sub
				caseID := fmt.Sprintf("%s|hsub%d.%02x", tag, i, sub)
				if !r.Want(caseID) {
					continue
				}
				ok, _ := verifyNoPanic(r, caseID, mk(m, pb, sb), key.JWK)
				nv, perr := jcs.Parse(m)
				same := perr == nil && jcs.Equal(nv, origHdr)
				if same {
					r.Outcome("header edit value-preserving (not asserted)")
					continue
				}
				r.Nontrivial(caseID)
				if ok {
					r.Violation("accepts-altered-header:"+j.kt, caseID, fmt.Sprintf("header %q changed to %q still verifies", hb, m), map[string]interface{}{"header": string(m)})
				} else {
					r.Outcome("altered-header rejected")
				}
			}
		}
		// --- foreign keys
		for _, fk := range flat {
			if fk == key {
				continue
			}
			reject("foreign-key", "foreign|"+fk.String(), compact, fk.JWK, "JWS verified under foreign key "+fk.String())
		}
		// --- signature classes
		n := len(sb)
		classes := map[string][]byte{
			"len-1": sb[:n-1], "len+1": append(append([]byte{}, sb...), 0), "len+1front": append([]byte{0}, sb...), "half": sb[:n/2],
			"double": append(append([]byte{}, sb...), sb...), "zero": make([]byte, n), "one-byte": {1},
			"swapped": append(append([]byte{}, sb[n/2:]...), sb[:n/2]...),
		}
		if j.kt != fx.Ed25519 {
			rr, ss := new(big.Int).SetBytes(sb[:n/2]), new(big.Int).SetBytes(sb[n/2:])
			N := key.Order()
			pad := func(x *big.Int) []byte {
				b := x.Bytes()
				out := make([]byte, n/2)
				copy(out[n/2-len(b):], b)
				return out
			}
			classes["r-zero"] = append(make([]byte, n/2), sb[n/2:]...)
			classes["s-zero"] = append(append([]byte{}, sb[:n/2]...), make([]byte, n/2)...)
			classes["r-eq-n"] = append(pad(N), sb[n/2:]...)
			classes["s-eq-n"] = append(append([]byte{}, sb[:n/2]...), pad(N)...)
			if rn := new(big.Int).Add(rr, N); len(rn.Bytes()) <= n/2 {
				classes["r-plus-n"] = append(pad(rn), sb[n/2:]...)
			}
			for _, z := range []int{1, 2, 8} {
				zs := make([]byte, z)
				classes[fmt.Sprintf("halves-zero-padded-%d", z)] = append(append(append(append([]byte{}, zs...), sb[:n/2]...), zs...), sb[n/2:]...)
				classes[fmt.Sprintf("halves-zero-suffixed-%d", z)] = append(append(append(append([]byte{}, sb[:n/2]...), zs...), sb[n/2:]...), zs...)
			}
			der, _ := asn1.Marshal(struct{ R, S *big.Int }{rr, ss})
			classes["der"] = der
			// the tolerated twin
			twin := append(append([]byte{}, sb[:n/2]...), pad(new(big.Int).Sub(N, ss))...)
			caseID := tag + "|twin"
			if r.Want(caseID) {
				if ok, err := verifyNoPanic(r, caseID, mk(hb, pb, twin), key.JWK); !ok {
					r.Violation("rejects-ecdsa-twin:"+j.kt, caseID, fmt.Sprintf("(r, n-s) twin of a genuine signature rejected: %v", err), nil)
				}
			}
		}
		// one byte inserted at / removed from EVERY position of the genuine signature (a wrongly sized signature is refused wherever
		// the extra byte sits: in front, between r and s, at the end, ...)
		for pos := 0; pos <= n; pos++ {
			for _, b := range []byte{0x00, 0x01, 0xff} {
				classes[fmt.Sprintf("insert-%02x-at-%d", b, pos)] = append(append(append([]byte{}, sb[:pos]...), b), sb[pos:]...)
			}
			if pos < n {
				classes[fmt.Sprintf("delete-at-%d", pos)] = append(append([]byte{}, sb[:pos]...), sb[pos+1:]...)
			}
		}
		for name, s := range classes {
			if len(s) == 0 {
				continue
			}
			reject("bad-signature-"+name, "sig|"+name, mk(hb, pb, s), key.JWK, "signature class "+name)
		}
		// empty signature
		reject("bad-signature-empty", "sig|empty", parts[0]+"."+parts[1]+".", key.JWK, "empty signature")
		r.Sample(map[string]interface{}{"key": key.String(), "header": string(hb), "payload_len": len(pb)})
	})

	// --- library-produced JWS verify (library signer + library JWK conversion) and agree with the independent JWK
	for _, kt := range fx.KeyTypes {
		key := allKeys[kt][0]
		var signer interface {
			Sign([]byte) ([]byte, error)
			Headers() jws.Headers
		}
		for _, kid := range []string{"", "kid-7"} {
			if kt == fx.Ed25519 {
				signer = edsigner.New(key.Ed, fx.AlgFor(kt), kid)
			} else {
				signer = ecsigner.New(key.EC, fx.AlgFor(kt), kid)
			}
			var pub interface{}
			if kt == fx.Ed25519 {
				pub = key.Ed.Public().(ed25519.PublicKey)
			} else {
				pub = &ecdsa.PublicKey{Curve: key.EC.Curve, X: key.EC.X, Y: key.EC.Y}
			}
			libJWK, err := pubkey.GetPublicKeyJWK(pub)
			caseID := fmt.Sprintf("lib|%s|kid=%s", kt, kid)
			if err != nil {
				r.Violation("lib-jwk-error:"+kt, caseID, err.Error(), nil)
				continue
			}
			if *libJWK != *key.JWK {
				r.Violation("lib-jwk-differs:"+kt, caseID, fmt.Sprintf("pubkey.GetPublicKeyJWK gives %+v, independent encoding %+v", libJWK, key.JWK), nil)
			}
			for pi, payload := range payloads[:2] {
				var model interface{}
				_ = json.Unmarshal(payload, &model)
				c1, err1 := verifhooks.SignModel(model, signer)
				c2, err2 := verifhooks.SignPayload(payload, signer)
				for ci, c := range []string{c1, c2} {
					cid := fmt.Sprintf("%s|p%d|c%d", caseID, pi, ci)
					if err1 != nil || err2 != nil {
						r.Violation("lib-sign-error:"+kt, cid, fmt.Sprint(err1, err2), nil)
						continue
					}
					r.State()
					if ok, err := verifyNoPanic(r, cid, c, libJWK); !ok {
						r.Violation("lib-signed-rejected:"+kt, cid, fmt.Sprintf("JWS produced by the library's signing utilities does not verify: %v", err), map[string]interface{}{"jws": c})
					}
					if ok, _ := verifyNoPanic(r, cid+"|foreign", c, allKeys[kt][1].JWK); ok {
						r.Violation("accepts-foreign-key:"+kt, cid, "library-signed JWS verifies under a foreign key", nil)
					}
					r.Nontrivial(cid)
				}
				// NewJWS with every split of the headers between the caller's protected set and the signer's own headers: whatever is
				// signed is what is serialized, so the result verifies
				sh := signer.Headers()
				splits := map[string]jws.Headers{"same-as-signer": sh, "empty": {}, "nil": nil, "typ-only": {"typ": "JWT"}, "superset": {"typ": "JWT"}}
				if alg, ok := sh["alg"]; ok {
					splits["alg-only"] = jws.Headers{"alg": alg}
					splits["superset"]["alg"] = alg
				}
				if kidv, ok := sh["kid"]; ok {
					splits["kid-only"] = jws.Headers{"kid": kidv}
					splits["superset"]["kid"] = kidv
				}
				// a signer that contributes no headers of its own: everything comes from the caller's protected set
				splits["same-as-signer|headerless-signer"] = sh
				splits["superset|headerless-signer"] = splits["superset"]
				for sn, protected := range splits {
					cid := fmt.Sprintf("%s|p%d|newjws|%s", caseID, pi, sn)
					if !r.Want(cid) {
						continue
					}
					var compact string
					var serr error
					func() {
						defer func() {
							if pn := recover(); pn != nil {
								serr = fmt.Errorf("panic: %v", pn)
							}
						}()
						var obj *verifhooks.JSONWebSignature
						// the caller's header map is the caller's: it is changed after signing and before serialization (a map re-used
						// for the next JWS) - what was signed is what is serialized
						var mine jws.Headers
						if protected != nil {
							mine = jws.Headers{}
							for k, v := range protected {
								mine[k] = v
							}
						}
						var sg interface {
							Sign(data []byte) ([]byte, error)
							Headers() jws.Headers
						} = signer
						if strings.HasSuffix(sn, "|headerless-signer") {
							sg = c09HeaderlessSigner{signer}
						}
						obj, serr = verifhooks.NewJWS(mine, nil, payload, sg)
						if serr == nil {
							for k := range mine {
								mine[k] = "changed-after-signing"
							}
							if mine != nil {
								mine["late"] = "added-after-signing"
							}
							compact, serr = obj.SerializeCompact(false)
						}
					}()
					r.Eval()
					r.State()
					r.Nontrivial(cid)
					if serr != nil {
						r.Violation("lib-sign-error:"+kt+":newjws:"+sn, cid, serr.Error(), nil)
						continue
					}
					if ok, err := verifyNoPanic(r, cid, compact, libJWK); !ok {
						r.Violation("lib-signed-rejected:"+kt+":newjws:"+sn, cid, fmt.Sprintf("JWS created by NewJWS (protected headers: %s, signer headers %v) does not verify under the matching key: %v", sn, sh, err), map[string]interface{}{"jws": compact})
					}
					if ok, _ := verifyNoPanic(r, cid+"|foreign", compact, allKeys[kt][1].JWK); ok {
						r.Violation("accepts-foreign-key:"+kt, cid, "library-signed JWS verifies under a foreign key", nil)
					}
				}
			}
		}
	}

	// --- keys whose coordinates have a leading zero byte: library JWK conversion, signing and verification
	for _, kt := range []string{fx.P256, fx.P384, fx.P521, fx.Secp256k1} {
		for _, which := range []string{"x", "y"} {
			if r.Tier == "quick" && (kt == fx.P384 || kt == fx.P521) && which == "y" {
				continue
			}
			k := fx.ShortCoordKey(kt, which)
			caseID := fmt.Sprintf("shortcoord|%s|%s", kt, which)
			if !r.Want(caseID) {
				continue
			}
			r.State()
			libJWK, err := pubkey.GetPublicKeyJWK(&ecdsa.PublicKey{Curve: k.EC.Curve, X: k.EC.X, Y: k.EC.Y})
			if err != nil || *libJWK != *k.JWK {
				r.Violation("lib-jwk-differs:"+kt+":short-"+which, caseID, fmt.Sprintf("pubkey.GetPublicKeyJWK for a key whose %s has a leading zero byte gives %+v (err %v), fixed-width encoding %+v", which, libJWK, err, k.JWK), nil)
				continue
			}
			c, err := verifhooks.SignPayload(payloads[0], ecsigner.New(k.EC, fx.AlgFor(kt), ""))
			if err != nil {
				r.Violation("lib-sign-error:"+kt, caseID, err.Error(), nil)
				continue
			}
			if ok, verr := verifyNoPanic(r, caseID, c, libJWK); !ok {
				r.Violation("lib-signed-rejected:"+kt+":short-"+which, caseID, fmt.Sprintf("JWS signed and converted by the library does not verify: %v", verr), nil)
			}
			if ok, verr := verifyNoPanic(r, caseID, fx.CompactJWS(k, payloads[1], nil), k.JWK); !ok {
				r.Violation("rejects-genuine:"+kt+":short-"+which, caseID, fmt.Sprintf("independently built JWS does not verify: %v", verr), nil)
			}
			r.Nontrivial(caseID)
		}
	}

	// --- malformed compact strings, headers and JWKs
	key := allKeys[fx.P256][0]
	good := fx.CompactJWS(key, payloads[0], nil)
	gp := strings.Split(good, ".")
	segs := func(valid string) []string { return []string{"", "!!!", "e30", valid, valid + "=", "=" + valid} }
	var malformed []string
	for _, h := range segs(gp[0]) {
		for _, p := range segs(gp[1]) {
			for _, s := range segs(gp[2]) {
				malformed = append(malformed, h+"."+p+"."+s)
			}
		}
	}
	malformed = append(malformed, "", ".", "..", "...", "....", gp[0], gp[0]+"."+gp[1], good+".x", "{"+good, "{}", `{"payload":"x"}`, " "+good, good+" ", strings.Repeat(".", 50))
	for i, m := range malformed {
		if m == good {
			continue
		}
		caseID := fmt.Sprintf("malformed|%d", i)
		if !r.Want(caseID) {
			continue
		}
		r.State()
		if ok, _ := verifyNoPanic(r, caseID, m, key.JWK); ok {
			r.Violation("accepts-malformed-compact", caseID, fmt.Sprintf("malformed compact string %q accepted", hx.Trunc(m, 120)), nil)
		}
		r.Nontrivial(caseID)
	}
	hdrs := []string{`{}`, `{"kid":"x"}`, `{"alg":1}`, `{"alg":null}`, `{"alg":"none"}`, `{"alg":""}`, `{"alg":["ES256"]}`, `{"alg":"ES256","b64":"true"}`, `{"alg":"ES256","b64":1}`,
		`{"alg":"ES256","b64":null}`, `{"alg":"ES256","b64":"false"}`, `[]`, `"ES256"`, `null`, `{"alg":"ES256"`, `{"ALG":"ES256"}`, `{"alg":"ES256","crit":["b64"],"b64":true}`, `{"alg":{"a":"ES256"}}`}
	for i, h := range hdrs {
		caseID := fmt.Sprintf("header|%d", i)
		if !r.Want(caseID) {
			continue
		}
		// sign the header as given: only structural acceptance is at stake for alg-less/odd headers
		c := fx.CompactJWS(key, payloads[0], &fx.JWSOpts{HeaderRaw: []byte(h)})
		ok, _ := verifyNoPanic(r, caseID, c, key.JWK)
		r.State()
		var hv map[string]interface{}
		structurallyOK := json.Unmarshal([]byte(h), &hv) == nil && hv != nil
		if structurallyOK {
			if _, has := hv["alg"]; !has {
				structurallyOK = false
			}
			if b, has := hv["b64"]; has {
				if _, isBool := b.(bool); !isBool {
					structurallyOK = false
				}
			}
		}
		if !structurallyOK && ok {
			r.Violation("accepts-bad-header", caseID, fmt.Sprintf("header %s (missing alg / non-boolean b64 / not an object) accepted", h), nil)
		}
		r.Nontrivial(caseID)
	}
	// JWK grammar against genuine signatures of each key type
	for _, kt := range fx.KeyTypes {
		k := allKeys[kt][0]
		other := allKeys[kt][1]
		c := fx.CompactJWS(k, payloads[0], nil)
		sz := fx.CoordSize(kt)
		x, y := b64d(k.JWK.X), []byte(nil)
		if k.JWK.Y != "" {
			y = b64d(k.JWK.Y)
		}
		type jv struct {
			name string
			j    jws.JWK
			must bool // must be rejected per the statement (otherwise only "no panic")
		}
		var vs []jv
		base := *k.JWK
		mod := func(name string, must bool, f func(j *jws.JWK)) {
			j := base
			f(&j)
			if j == base {
				return // the mutation is the identity for this key type (e.g. lower-casing "secp256k1")
			}
			vs = append(vs, jv{name, j, must})
		}
		mod("kty-missing", true, func(j *jws.JWK) { j.Kty = "" })
		mod("kty-unknown", true, func(j *jws.JWK) { j.Kty = "RSA" })
		mod("kty-lower", true, func(j *jws.JWK) { j.Kty = strings.ToLower(j.Kty) })
		mod("kty-swapped", true, func(j *jws.JWK) {
			if j.Kty == "EC" {
				j.Kty = "OKP"
			} else {
				j.Kty = "EC"
			}
		})
		mod("crv-missing", true, func(j *jws.JWK) { j.Crv = "" })
		mod("crv-unknown", true, func(j *jws.JWK) { j.Crv = "P-999" })
		mod("crv-lower", true, func(j *jws.JWK) { j.Crv = strings.ToLower(j.Crv) })
		mod("crv-upper", true, func(j *jws.JWK) { j.Crv = strings.ToUpper(j.Crv) + "" })
		mod("x-missing", true, func(j *jws.JWK) { j.X = "" })
		mod("x-short", true, func(j *jws.JWK) { j.X = fx.B64(x[:sz-1]) })
		mod("x-short-front", true, func(j *jws.JWK) { j.X = fx.B64(x[1:]) })
		mod("x-long", true, func(j *jws.JWK) { j.X = fx.B64(append(append([]byte{}, x...), 0)) })
		mod("x-long-front", true, func(j *jws.JWK) { j.X = fx.B64(append([]byte{0}, x...)) })
		mod("x-notb64", true, func(j *jws.JWK) { j.X = "!!" + j.X })
		mod("x-other", true, func(j *jws.JWK) { j.X = other.JWK.X })
		if y != nil {
			mod("y-missing", true, func(j *jws.JWK) { j.Y = "" })
			mod("y-short", true, func(j *jws.JWK) { j.Y = fx.B64(y[:sz-1]) })
			mod("y-long", true, func(j *jws.JWK) { j.Y = fx.B64(append([]byte{0}, y...)) })
			mod("y-offcurve", true, func(j *jws.JWK) { m := append([]byte{}, y...); m[sz-1] ^= 1; j.Y = fx.B64(m) })
			mod("xy-swapped", true, func(j *jws.JWK) { j.X, j.Y = j.Y, j.X })
			mod("y-other", true, func(j *jws.JWK) { j.Y = other.JWK.Y })
			for _, okt := range fx.KeyTypes {
				if okt != kt && okt != fx.Ed25519 {
					ok2 := allKeys[okt][0]
					mod("crv-of-"+okt, true, func(j *jws.JWK) { j.Crv = okt })
					mod("point-of-"+okt, true, func(j *jws.JWK) { j.X, j.Y = ok2.JWK.X, ok2.JWK.Y })
				}
			}
		} else {
			mod("y-present-okp", false, func(j *jws.JWK) { j.Y = j.X })
			mod("crv-x25519", true, func(j *jws.JWK) { j.Crv = "X25519" })
		}
		for _, v := range vs {
			caseID := fmt.Sprintf("jwk|%s|%s", kt, v.name)
			if !r.Want(caseID) {
				continue
			}
			r.State()
			jj := v.j
			ok, _ := verifyNoPanic(r, caseID, c, &jj)
			r.Nontrivial(caseID)
			if ok && v.must {
				r.Violation("accepts-bad-jwk:"+v.name, caseID, fmt.Sprintf("genuine %s JWS verifies under malformed JWK %+v (%s)", kt, jj, v.name), map[string]interface{}{"jwk": jj})
			}
			r.Outcome(fmt.Sprintf("jwk %s accepted=%v", v.name, ok))
		}
	}
	r.Assumptions = append(r.Assumptions,
		"header edits that leave the parsed header value unchanged (whitespace) are outside the claim; only 'no panic' is required of them",
		"cryptographic soundness of crypto/ecdsa, crypto/ed25519 and btcec is trusted; the check decides the library's use of them",
		"an OKP JWK carrying a stray 'y' member is not in the statement's rejection list; only 'no panic' is required")
}
