package props

import (
	"encoding/json"
	"fmt"
	"strings"

	"github.com/trustbloc/sidetree-core-go/pkg/api/operation"
	"github.com/trustbloc/sidetree-core-go/pkg/api/protocol"
	"github.com/trustbloc/sidetree-core-go/pkg/api/txn"
	"github.com/trustbloc/sidetree-core-go/pkg/versions/1_0/model"
	"github.com/trustbloc/sidetree-core-go/pkg/versions/1_0/txnprovider"

	"verif/mc/fx"
	"verif/mc/hx"
	"verif/mc/ref/doc"
)

func init() { register("C14", c14) }

// fileSet is a batch file set as decoded JSON trees.
type fileSet struct {
	name  string
	trees map[string]interface{} // coreIndex, coreProof, provIndex, provProof, chunk (absent when not produced)
	addr  map[string]string      // original addresses
	count int
}

var fileOrder = []string{"chunk", "provProof", "provIndex", "coreProof", "coreIndex"}

func gunzipJSON(b []byte) interface{} {
	raw, err := fx.Gunzip(b)
	if err != nil {
		panic(err)
	}
	var v interface{}
	if err := json.Unmarshal(raw, &v); err != nil {
		panic(err)
	}
	return v
}

func strAt(v interface{}, path ...string) string {
	cur := v
	for _, k := range path {
		switch t := cur.(type) {
		case map[string]interface{}:
			cur = t[k]
		case []interface{}:
			var i int
			fmt.Sscan(k, &i)
			if i >= len(t) {
				return ""
			}
			cur = t[i]
		default:
			return ""
		}
	}
	s, _ := cur.(string)
	return s
}

func buildFileSet(name string, p protocol.Protocol, dids []*fx.DIDOps, seq []qsym) *fileSet {
	cas := fx.NewMemCAS()
	ver := fx.NewVersion(p, &fx.VersionOpts{CAS: cas})
	var queued []*operation.QueuedOperation
	for _, q := range seq {
		queued = append(queued, dids[q.did].Queued(q.key, "did:sidetree"))
	}
	info, err := ver.Handler.PrepareTxnFiles(queued)
	if err != nil {
		panic(err)
	}
	fs := &fileSet{name: name, trees: map[string]interface{}{}, addr: map[string]string{}}
	fmt.Sscanf(info.AnchorString, "%d.", &fs.count)
	core := info.AnchorString[strings.Index(info.AnchorString, ".")+1:]
	get := func(file, a string) {
		if a == "" {
			return
		}
		fs.addr[file] = a
		fs.trees[file] = gunzipJSON(cas.Data[a])
	}
	get("coreIndex", core)
	get("coreProof", strAt(fs.trees["coreIndex"], "coreProofFileUri"))
	get("provIndex", strAt(fs.trees["coreIndex"], "provisionalIndexFileUri"))
	if fs.trees["provIndex"] != nil {
		get("provProof", strAt(fs.trees["provIndex"], "provisionalProofFileUri"))
		get("chunk", strAt(fs.trees["provIndex"], "chunks", "0", "chunkFileUri"))
	}
	return fs
}

// retarget rewrites every string equal to an original address by the new address.
func retarget(v interface{}, m map[string]string) interface{} {
	switch t := v.(type) {
	case map[string]interface{}:
		for k, e := range t {
			t[k] = retarget(e, m)
		}
		return t
	case []interface{}:
		for i, e := range t {
			t[i] = retarget(e, m)
		}
		return t
	case string:
		if n, ok := m[t]; ok {
			return n
		}
	}
	return v
}

// assemble serializes the (possibly mutated) trees bottom-up into a CAS, fixing up references that still point
// to original addresses; raw overrides the stored bytes of a file. Returns the anchor string.
func (fs *fileSet) assemble(trees map[string]interface{}, raw map[string][]byte, count int) (*fx.MemCAS, string) {
	cas := fx.NewMemCAS()
	remap := map[string]string{}
	var coreAddr string
	for _, f := range fileOrder {
		t, ok := trees[f]
		if !ok {
			continue
		}
		t = retarget(doc.Clone(t), remap)
		var content []byte
		if b, ok := raw[f]; ok {
			content = b
		} else {
			content = fx.Gzip(mustJSON(t))
		}
		a := fx.Addr(content)
		cas.Put(a, content)
		remap[fs.addr[f]] = a
		if f == "coreIndex" {
			coreAddr = a
		}
	}
	return cas, fmt.Sprintf("%d.%s", count, coreAddr)
}

type readResult struct {
	ops      []*operation.AnchoredOperation
	err      error
	panicked bool
}

// normTxn removes the transaction coordinates from a rendered result (the histories use other coordinates than the single reads).
func normTxn(x string) string {
	for _, k := range []string{"transactionTime", "transactionNumber"} {
		for {
			i := strings.Index(x, "\""+k+"\":")
			if i < 0 {
				break
			}
			j := i + len(k) + 3
			for j < len(x) && x[j] >= '0' && x[j] <= '9' {
				j++
			}
			x = x[:i] + x[j:]
		}
	}
	return x
}

func c14Read(r *hx.Run, caseID string, p protocol.Protocol, cas *fx.MemCAS, anchor string, alt []string, opts ...txnprovider.Opt) readResult {
	ver := fx.NewVersion(p, &fx.VersionOpts{CAS: cas, ProviderOpts: opts})
	var res readResult
	func() {
		defer func() {
			if pn := recover(); pn != nil {
				res.panicked = true
				res.err = fmt.Errorf("panic: %v", pn)
				r.Violation("panic:GetTxnOperations", caseID, fmt.Sprintf("GetTxnOperations panicked: %v (anchor %s)", pn, anchor), map[string]interface{}{"case": caseID})
			}
		}()
		res.ops, res.err = ver.Provider.GetTxnOperations(&txn.SidetreeTxn{Namespace: "did:sidetree", AnchorString: anchor, TransactionTime: 5, TransactionNumber: 1, AlternateSources: alt})
	}()
	r.Eval()
	r.Trans(1)
	r.Trace(1)
	if res.err == nil {
		// the same provider reads the set once more before the first result is examined: same verdict, same operations, and the
		// first result is not disturbed
		first := string(mustJSON(res.ops))
		ops2, err2 := ver.Provider.GetTxnOperations(&txn.SidetreeTxn{Namespace: "did:sidetree", AnchorString: anchor, TransactionTime: 5, TransactionNumber: 1, AlternateSources: alt})
		if err2 != nil || string(mustJSON(ops2)) != first || string(mustJSON(res.ops)) != first {
			r.Violation("repeated-read-differs", caseID, fmt.Sprintf("the same provider reading anchor %s twice: second error %v, results equal=%v, first result intact=%v", anchor, err2, string(mustJSON(ops2)) == first, string(mustJSON(res.ops)) == first), nil)
		}
		c14CheckOps(r, caseID, ver, anchor, res.ops)
	}
	return res
}

// c14CheckOps checks the success invariant: count, distinct suffixes, validated deltas, parseable signed data.
func c14CheckOps(r *hx.Run, caseID string, ver *fx.Version, anchor string, ops []*operation.AnchoredOperation) {
	var count int
	fmt.Sscanf(anchor, "%d.", &count)
	if len(ops) != count {
		r.Violation("success-count-mismatch", caseID, fmt.Sprintf("%d operations returned for anchor string %s", len(ops), anchor), nil)
	}
	seen := map[string]bool{}
	for i, op := range ops {
		if seen[op.UniqueSuffix] {
			r.Violation("success-duplicate-suffix", caseID, fmt.Sprintf("suffix %s returned twice", op.UniqueSuffix), nil)
		}
		seen[op.UniqueSuffix] = true
		var req struct {
			SignedData string            `json:"signedData"`
			Delta      *model.DeltaModel `json:"delta"`
		}
		if err := json.Unmarshal(op.OperationRequest, &req); err != nil {
			r.Violation("success-unparseable-request", caseID, fmt.Sprintf("operation %d request is not JSON: %v", i, err), nil)
			continue
		}
		var err error
		switch op.Type {
		case operation.TypeUpdate:
			_, err = ver.Parser.ParseSignedDataForUpdate(req.SignedData)
		case operation.TypeRecover:
			_, err = ver.Parser.ParseSignedDataForRecover(req.SignedData)
		case operation.TypeDeactivate:
			_, err = ver.Parser.ParseSignedDataForDeactivate(req.SignedData)
		}
		if err != nil {
			r.Violation("success-unparseable-signed-data:"+string(op.Type), caseID, fmt.Sprintf("operation %d (%s) returned with unparseable signed data: %v", i, op.Type, err), nil)
		}
		if op.Type != operation.TypeDeactivate {
			if err := ver.Parser.ValidateDelta(req.Delta); err != nil {
				r.Violation("success-invalid-delta:"+string(op.Type), caseID, fmt.Sprintf("operation %d (%s) returned with a delta that fails validation: %v", i, op.Type, err), nil)
			}
		}
	}
}

type mutation struct {
	file  string
	label string
	apply func(tree interface{}) interface{} // returns the mutated copy
}

// treeMutations enumerates the structural mutations at every JSON path of one file.
func treeMutations(file string, tree interface{}, uris []string, suffixes []string) []mutation {
	var out []mutation
	var paths [][]string
	jsonPaths(tree, nil, &paths)
	parentIsArray := func(path []string) bool {
		cur := tree
		for _, k := range path[:len(path)-1] {
			switch t := cur.(type) {
			case map[string]interface{}:
				cur = t[k]
			case []interface{}:
				var i int
				fmt.Sscan(k, &i)
				cur = t[i]
			}
		}
		_, ok := cur.([]interface{})
		return ok
	}
	editArray := func(path []string, f func(a []interface{}, i int) []interface{}) func(interface{}) interface{} {
		return func(tr interface{}) interface{} {
			c := doc.Clone(tr)
			parentPath := path[:len(path)-1]
			var idx int
			fmt.Sscan(path[len(path)-1], &idx)
			// fetch parent array
			var cur interface{} = c
			for _, k := range parentPath {
				switch t := cur.(type) {
				case map[string]interface{}:
					cur = t[k]
				case []interface{}:
					var i int
					fmt.Sscan(k, &i)
					cur = t[i]
				}
			}
			na := f(append([]interface{}{}, cur.([]interface{})...), idx)
			if len(parentPath) == 0 {
				return na
			}
			return setPath(c, parentPath, na, false)
		}
	}
	for _, path := range paths {
		path := path
		ps := strings.Join(path, "/")
		if parentIsArray(path) {
			out = append(out, mutation{file, ps + ":delete-element", editArray(path, func(a []interface{}, i int) []interface{} { return append(a[:i], a[i+1:]...) })})
			out = append(out, mutation{file, ps + ":duplicate-element", editArray(path, func(a []interface{}, i int) []interface{} {
				return append(a[:i+1], append([]interface{}{doc.Clone(a[i])}, a[i+1:]...)...)
			})})
			out = append(out, mutation{file, ps + ":swap-with-next", editArray(path, func(a []interface{}, i int) []interface{} {
				if i+1 < len(a) {
					a[i], a[i+1] = a[i+1], a[i]
				}
				return a
			})})
		} else {
			out = append(out, mutation{file, ps + ":delete-member", func(tr interface{}) interface{} { return setPath(tr, path, nil, true) }})
		}
		for ri, rep := range []interface{}{nil, []interface{}{}, map[string]interface{}{}, "", 0.0, true, "x", []interface{}{nil}, []interface{}{"x"}, map[string]interface{}{"x": nil}} {
			rep := rep
			out = append(out, mutation{file, fmt.Sprintf("%s:replace%d", ps, ri), func(tr interface{}) interface{} { return setPath(tr, path, doc.Clone(rep), false) }})
		}
		if path[len(path)-1] == "didSuffix" { // the reference points at another DID of the same batch (duplicate suffix with consistent counts)
			for si, sfx := range suffixes {
				sfx := sfx
				out = append(out, mutation{file, fmt.Sprintf("%s:other-suffix%d", ps, si), func(tr interface{}) interface{} { return setPath(tr, path, sfx, false) }})
			}
		}
		if strings.HasSuffix(strings.ToLower(path[len(path)-1]), "uri") {
			for ui, u := range uris {
				u := u
				out = append(out, mutation{file, fmt.Sprintf("%s:retarget%d", ps, ui), func(tr interface{}) interface{} { return setPath(tr, path, u, false) }})
			}
		}
	}
	return out
}

func c14(r *hx.Run) {
	fx.Quiet()
	r.Rule = "six valid batch file sets (all four types; creates only; updates only; deactivates only; recover+update; 6 operations) are decoded to JSON trees; every structural mutation at every JSON path of every file (delete, duplicate, swap, null, [], {}, \"\", 0, true, foreign values, every didSuffix reference pointed at every other DID of the batch, every URI retargeted to another file / itself / missing / over-long / empty; thorough: all pairs of mutations on two different files), entries moved between lists, well-formed proofs of an operation type the core index has none of, each operation duplicated consistently in every file that references it with the anchor count raised, count skews, every truncation of every compressed file, gzip header/trailer substitutions, uncompressed content, exact size and decompression boundaries per size parameter (also with the excess in a second gzip member, from an alternate source, and from an alternate source while the local copy is corrupt), the URI length boundary, an anchor-string grammar (named cases and the product of 17 count tokens x 5 separators x 9 address tokens), and every subset of failing CAS reads x alternate-source configurations (none / good / bad+good / failing formatter / bad+partial / bad; and ordered pairs of such transactions on one provider, the second compared with a fresh provider) are served to the real OperationProvider: it must return an error or operations satisfying the success invariant (count, distinct suffixes, validated deltas, parseable signed data) and never panic; the listed rejection classes must be errors. Non-trivial: distinct mutated inputs that are rejected plus those accepted with the invariant checked."
	p := fx.DefaultProtocol()
	dids := []*fx.DIDOps{fx.NewDIDOps(fx.Ed25519, fx.SHA256, "a"), fx.NewDIDOps(fx.Ed25519, fx.SHA256, "b"), fx.NewDIDOps(fx.P256, fx.SHA256, "c"),
		fx.NewDIDOps(fx.Ed25519, fx.SHA256, "d"), fx.NewDIDOps(fx.Ed25519, fx.SHA256, "e"), fx.NewDIDOps(fx.Ed25519, fx.SHA256, "f")}
	sets := []*fileSet{
		buildFileSet("all4", p, dids, []qsym{{0, "C"}, {1, "U"}, {2, "R"}, {3, "D"}}),
		buildFileSet("creates", p, dids, []qsym{{0, "C"}, {1, "C"}}),
		buildFileSet("updates", p, dids, []qsym{{0, "U"}, {1, "U"}}),
		buildFileSet("deactivates", p, dids, []qsym{{0, "D"}, {1, "D"}}),
		buildFileSet("recover+update", p, dids, []qsym{{0, "R"}, {1, "U"}}),
		buildFileSet("six", p, dids, []qsym{{0, "C"}, {1, "C"}, {2, "U"}, {3, "R"}, {4, "D"}, {5, "D"}}),
	}
	longURI := strings.Repeat("u", int(p.MaxCasURILength)+1)
	for _, fs := range sets {
		r.State()
		// baseline
		cas, anchor := fs.assemble(fs.trees, nil, fs.count)
		base := c14Read(r, fs.name+"|baseline", p, cas, anchor, nil)
		if base.err != nil || len(base.ops) != fs.count {
			panic(fmt.Sprintf("baseline %s does not read back: %v", fs.name, base.err))
		}
		// a reader whose protocol names a compression algorithm the registry does not know must fail, not panic
		for _, alg := range []string{"ZSTD-UNKNOWN", ""} {
			caseID := fs.name + "|unknown-compression|" + alg
			if r.Want(caseID) {
				pp := p
				pp.CompressionAlgorithm = alg
				if res := c14Read(r, caseID, pp, cas, anchor, nil); res.err == nil {
					r.Violation("accepts:unknown-compression-algorithm", caseID, "file set read although the protocol's compression algorithm is not registered", nil)
				}
				r.Nontrivial(caseID)
			}
		}
		var suffixes []string
		for _, op := range base.ops {
			suffixes = append(suffixes, op.UniqueSuffix)
		}
		uris := []string{"", "missing-address", longURI}
		for _, f := range fileOrder {
			if a, ok := fs.addr[f]; ok {
				uris = append(uris, a)
			}
		}
		var muts []mutation
		for _, f := range fileOrder {
			if t, ok := fs.trees[f]; ok {
				muts = append(muts, treeMutations(f, t, uris, suffixes)...)
			}
		}
		runMut := func(ms []mutation, count int) {
			var labels []string
			trees := map[string]interface{}{}
			for k, v := range fs.trees {
				trees[k] = v
			}
			for _, m := range ms {
				trees[m.file] = m.apply(trees[m.file])
				labels = append(labels, m.file+":"+m.label)
			}
			caseID := fmt.Sprintf("%s|mut|%s|count=%d", fs.name, strings.Join(labels, "&"), count)
			if !r.Want(caseID) {
				return
			}
			c, a := fs.assemble(trees, nil, count)
			res := c14Read(r, caseID, p, c, a, nil)
			if res.err != nil {
				r.Outcome("mutation rejected")
			} else {
				r.Outcome("mutation accepted (invariant checked)")
			}
			r.Nontrivial(caseID)
		}
		hx.ParallelFor(len(muts), func(i int) {
			runMut([]mutation{muts[i]}, fs.count)
			if strings.Contains(muts[i].label, "element") {
				runMut([]mutation{muts[i]}, fs.count-1)
				runMut([]mutation{muts[i]}, fs.count+1)
			}
		})
		r.Extra["single_mutations_"+fs.name] = len(muts)
		if r.Tier == "thorough" || fs.name == "all4" {
			// pairs on two different files; in quick only structural (delete / duplicate / retarget) mutations of the all4 set
			var sel []mutation
			for _, m := range muts {
				if r.Tier == "thorough" || strings.Contains(m.label, "delete") || strings.Contains(m.label, "duplicate") || strings.Contains(m.label, "retarget") {
					sel = append(sel, m)
				}
			}
			type pr struct{ a, b int }
			var pairs []pr
			for i := range sel {
				for j := i + 1; j < len(sel); j++ {
					if sel[i].file != sel[j].file {
						pairs = append(pairs, pr{i, j})
					}
				}
			}
			hx.ParallelFor(len(pairs), func(i int) {
				if r.OverBudget() {
					return
				}
				runMut([]mutation{sel[pairs[i].a], sel[pairs[i].b]}, fs.count)
			})
			r.Extra["pair_mutations_"+fs.name] = len(pairs)
		}
		// one operation duplicated consistently in every file that references it, with the anchor count raised: every count check
		// passes, only the distinct-suffix rule can refuse it
		{
			find := func(file, label string) *mutation {
				for i := range muts {
					if muts[i].file == file && muts[i].label == label {
						return &muts[i]
					}
				}
				return nil
			}
			nOf := func(file, typ string) int {
				t, _ := fs.trees[file].(map[string]interface{})
				o, _ := t["operations"].(map[string]interface{})
				l, _ := o[typ].([]interface{})
				return len(l)
			}
			nC, nR := nOf("coreIndex", "create"), nOf("coreIndex", "recover")
			type site struct {
				typ, index, proof string
				deltaBase         int
			}
			consistent := 0
			for _, st := range []site{{"create", "coreIndex", "", 0}, {"recover", "coreIndex", "coreProof", nC}, {"update", "provIndex", "provProof", nC + nR}, {"deactivate", "coreIndex", "coreProof", -1}} {
				for i := 0; i < nOf(st.index, st.typ); i++ {
					var ms []mutation
					want := 1
					if m := find(st.index, fmt.Sprintf("operations/%s/%d:duplicate-element", st.typ, i)); m != nil {
						ms = append(ms, *m)
					}
					if st.proof != "" {
						want++
						if m := find(st.proof, fmt.Sprintf("operations/%s/%d:duplicate-element", st.typ, i)); m != nil {
							ms = append(ms, *m)
						}
					}
					if st.deltaBase >= 0 {
						want++
						if m := find("chunk", fmt.Sprintf("deltas/%d:duplicate-element", st.deltaBase+i)); m != nil {
							ms = append(ms, *m)
						}
					}
					if len(ms) != want {
						panic(fmt.Sprintf("consistent duplication of %s[%d] in set %s: found %d of %d mutations", st.typ, i, fs.name, len(ms), want))
					}
					runMut(ms, fs.count+1)
					consistent++
				}
			}
			r.Extra["consistent_duplications_"+fs.name] = consistent
		}
		// move an entry to another type's list (core index) and count skews between files that must agree
		if ci, ok := fs.trees["coreIndex"].(map[string]interface{}); ok {
			if ops, ok := ci["operations"].(map[string]interface{}); ok {
				for _, from := range []string{"create", "recover", "deactivate"} {
					for _, to := range []string{"create", "recover", "deactivate"} {
						fa, _ := ops[from].([]interface{})
						if from == to || len(fa) == 0 {
							continue
						}
						from, to := from, to
						runMut([]mutation{{"coreIndex", "move:" + from + "->" + to, func(tr interface{}) interface{} {
							c := doc.Clone(tr).(map[string]interface{})
							o := c["operations"].(map[string]interface{})
							src := o[from].([]interface{})
							dst, _ := o[to].([]interface{})
							o[to] = append(dst, src[0])
							o[from] = src[1:]
							if len(src) == 1 {
								delete(o, from)
							}
							return c
						}}}, fs.count)
					}
				}
			}
		}
		// must-reject classes ------------------------------------------------------------
		mustReject := func(class, id string, pp protocol.Protocol, trees map[string]interface{}, raw map[string][]byte, count int) {
			caseID := fs.name + "|" + id
			if !r.Want(caseID) {
				return
			}
			c, a := fs.assemble(trees, raw, count)
			res := c14Read(r, caseID, pp, c, a, nil)
			r.Nontrivial(caseID)
			if res.err == nil {
				r.Violation("accepts:"+class, caseID, fmt.Sprintf("%s: %s was read successfully (%d operations)", fs.name, id, len(res.ops)), nil)
			}
		}
		mustAccept := func(class, id string, pp protocol.Protocol, trees map[string]interface{}, raw map[string][]byte) {
			caseID := fs.name + "|" + id
			if !r.Want(caseID) {
				return
			}
			c, a := fs.assemble(trees, raw, fs.count)
			res := c14Read(r, caseID, pp, c, a, nil)
			r.Nontrivial(caseID)
			if res.err != nil {
				r.Violation("rejects-at-limit:"+class, caseID, fmt.Sprintf("%s: %s rejected: %v", fs.name, id, res.err), nil)
			}
		}
		sizeParam := map[string]func(pp *protocol.Protocol, v uint){
			"coreIndex": func(pp *protocol.Protocol, v uint) { pp.MaxCoreIndexFileSize = v },
			"coreProof": func(pp *protocol.Protocol, v uint) { pp.MaxProofFileSize = v },
			"provProof": func(pp *protocol.Protocol, v uint) { pp.MaxProofFileSize = v },
			"provIndex": func(pp *protocol.Protocol, v uint) { pp.MaxProvisionalIndexFileSize = v },
			"chunk":     func(pp *protocol.Protocol, v uint) { pp.MaxChunkFileSize = v },
		}
		for _, f := range fileOrder {
			t, ok := fs.trees[f]
			if !ok {
				continue
			}
			if f == "coreProof" && fs.trees["provProof"] != nil || f == "provProof" && fs.trees["coreProof"] != nil {
				// both proof files share MaxProofFileSize: the boundary is asserted on the larger of the two only
				a, b := len(fx.Gzip(mustJSON(fs.trees["coreProof"]))), len(fx.Gzip(mustJSON(fs.trees["provProof"])))
				if (f == "coreProof" && a < b) || (f == "provProof" && b <= a) {
					continue
				}
			}
			content := fx.Gzip(mustJSON(t))
			L := len(content)
			for _, dv := range []int{-1, 0, 1} {
				pp := p
				pp.MaxMemoryDecompressionFactor = 50
				sizeParam[f](&pp, uint(L+dv))
				id := fmt.Sprintf("compressed-size:%s:limit=%+d", f, dv)
				if dv < 0 {
					mustReject("oversize-file", id, pp, fs.trees, nil, fs.count)
				} else {
					mustAccept("compressed-size", id, pp, fs.trees, nil)
				}
			}
			// the same compressed-size boundary when the file is only available from an alternate source
			for _, dv := range []int{-1, 0} {
				pp := p
				pp.MaxMemoryDecompressionFactor = 50
				sizeParam[f](&pp, uint(L+dv))
				caseID := fmt.Sprintf("%s|compressed-size-alt-source:%s:limit=%+d", fs.name, f, dv)
				if !r.Want(caseID) {
					continue
				}
				c, a := fs.assemble(fs.trees, nil, fs.count)
				target := fx.Addr(content)
				c.FailR = func(n int, addr string) bool { return addr == target }
				c.Aliases["alt:"+target] = content
				res := c14Read(r, caseID, pp, c, a, []string{"alt"}, txnprovider.WithSourceCASURIFormatter(func(uri, source string) (string, error) { return source + ":" + uri, nil }))
				r.Nontrivial(caseID)
				if dv < 0 && res.err == nil {
					r.Violation("accepts:oversize-file-from-alternate-source", caseID, fmt.Sprintf("%s: %s file of %d bytes served by an alternate source accepted with limit %d", fs.name, f, L, L+dv), nil)
				}
				if dv == 0 && res.err != nil {
					r.Violation("rejects-at-limit:alternate-source", caseID, fmt.Sprintf("%s: %s from alternate source rejected at its limit: %v", fs.name, f, res.err), nil)
				}
			}
			// ... and when the local CAS holds a corrupt copy (truncated / garbage / empty: the read succeeds, decompression cannot)
			// while an alternate source serves the well-formed file that is one byte over its limit: an error either way
			for ci, corrupt := range [][]byte{content[:len(content)/2], content[:len(content)-1], {0x1f}, {}, []byte("not gzip at all")} {
				pp := p
				pp.MaxMemoryDecompressionFactor = 50
				sizeParam[f](&pp, uint(L-1))
				caseID := fmt.Sprintf("%s|corrupt-local-oversize-alt-source:%s:%d", fs.name, f, ci)
				if !r.Want(caseID) {
					continue
				}
				c, a := fs.assemble(fs.trees, nil, fs.count)
				target := fx.Addr(content)
				c.Data[target] = corrupt
				c.Aliases["alt:"+target] = content
				res := c14Read(r, caseID, pp, c, a, []string{"alt"}, txnprovider.WithSourceCASURIFormatter(func(uri, source string) (string, error) { return source + ":" + uri, nil }))
				r.Nontrivial(caseID)
				if res.err == nil {
					r.Violation("accepts:oversize-file-from-alternate-source-after-corrupt-local-copy", caseID, fmt.Sprintf("%s: local copy of the %s file is corrupt, the alternate source serves %d bytes, limit %d: operations were returned", fs.name, f, L, L-1), nil)
				}
			}
			// decompressed boundary: pad the JSON with trailing spaces to exactly P*F and P*F+1 bytes
			for _, F := range []uint{2, 3} {
				P := uint(L + 60)
				for _, extra := range []int{0, 1} {
					target := int(P*F) + extra
					js := mustJSON(t)
					if len(js) > target {
						continue
					}
					padded := append(append([]byte{}, js...), []byte(strings.Repeat(" ", target-len(js)))...)
					gz := fx.Gzip(padded)
					if len(gz) > int(P) {
						panic("padding grew the compressed size beyond P")
					}
					pp := p
					pp.MaxMemoryDecompressionFactor = F
					sizeParam[f](&pp, P)
					id := fmt.Sprintf("decompressed-size:%s:factor=%d:over=%d", f, F, extra)
					if extra == 1 {
						mustReject("over-decompression-limit", id, pp, fs.trees, map[string][]byte{f: gz}, fs.count)
					} else {
						mustAccept("decompressed-size", id, pp, fs.trees, map[string][]byte{f: gz})
					}
					// the same total split over two gzip members (RFC 1952: the file is the concatenation of its members): the file
					// itself in the first member, the padding in the second
					second := fx.Gzip([]byte(strings.Repeat(" ", target-len(js))))
					if target > len(js) {
						multi := append(append([]byte{}, fx.Gzip(js)...), second...)
						if len(multi) <= int(P) {
							id2 := fmt.Sprintf("decompressed-size-two-members:%s:factor=%d:over=%d", f, F, extra)
							if extra == 1 {
								mustReject("over-decompression-limit:two-gzip-members", id2, pp, fs.trees, map[string][]byte{f: multi}, fs.count)
							} else if r.Want(fs.name + "|" + id2) {
								// at the limit: accepted (all members read) or rejected (multi-member streams refused) - never a panic, and
								// an accepted result satisfies the invariant
								c, a := fs.assemble(fs.trees, map[string][]byte{f: multi}, fs.count)
								c14Read(r, fs.name+"|"+id2, pp, c, a, nil)
								r.Nontrivial(fs.name + "|" + id2)
							}
						}
					}
				}
			}
		}
		// CAS URI length boundary
		U := len(fs.addr["coreIndex"])
		for _, dv := range []int{-1, 0, 1} {
			pp := p
			pp.MaxCasURILength = uint(U + dv)
			id := fmt.Sprintf("uri-length:limit=%+d", dv)
			hasRef := fs.trees["coreProof"] != nil || fs.trees["provIndex"] != nil
			if dv < 0 && hasRef {
				mustReject("over-long-uri", id, pp, fs.trees, nil, fs.count)
			} else {
				mustAccept("uri-length", id, pp, fs.trees, nil)
			}
		}
		// missing / superfluous references
		edit := func(file string, f func(m map[string]interface{})) map[string]interface{} {
			trees := map[string]interface{}{}
			for k, v := range fs.trees {
				trees[k] = v
			}
			c := doc.Clone(fs.trees[file]).(map[string]interface{})
			f(c)
			trees[file] = c
			return trees
		}
		if fs.trees["coreProof"] != nil {
			mustReject("missing-core-proof-reference", "ref:core-proof-removed", p, edit("coreIndex", func(m map[string]interface{}) { delete(m, "coreProofFileUri") }), nil, fs.count)
			// counts disagree for an operation type the core index does not have at all: well-formed proofs (taken from the first
			// file set) of that type added to the core proof file, 1 or 2 of them; likewise update proofs in the provisional proof
			getList := func(tree interface{}, typ string) []interface{} {
				m, _ := tree.(map[string]interface{})
				ops, _ := m["operations"].(map[string]interface{})
				l, _ := ops[typ].([]interface{})
				return l
			}
			for _, typ := range []string{"recover", "deactivate"} {
				donor := getList(sets[0].trees["coreProof"], typ)
				if len(getList(fs.trees["coreProof"], typ)) != 0 || len(donor) == 0 {
					continue
				}
				for n := 1; n <= 2; n++ {
					extra := make([]interface{}, 0, n)
					for i := 0; i < n; i++ {
						extra = append(extra, doc.Clone(donor[0]))
					}
					mustReject("proofs-for-absent-operation-type", fmt.Sprintf("count:core-proof:%s-proofs-without-operations:%d", typ, n), p, edit("coreProof", func(m map[string]interface{}) {
						ops, _ := m["operations"].(map[string]interface{})
						if ops == nil {
							ops = map[string]interface{}{}
							m["operations"] = ops
						}
						ops[typ] = extra
					}), nil, fs.count)
				}
			}
		} else {
			// the superfluous reference points at: a real proof with operations, empty proofs of every shape, the set's own other proof
			targets := map[string]interface{}{"real": sets[0].trees["coreProof"], "empty-object": map[string]interface{}{}, "empty-operations": map[string]interface{}{"operations": map[string]interface{}{}},
				"empty-lists": map[string]interface{}{"operations": map[string]interface{}{"recover": []interface{}{}, "deactivate": []interface{}{}}}}
			if fs.trees["provProof"] != nil {
				targets["own-provisional-proof"] = fs.trees["provProof"]
			}
			for tn, target := range targets {
				tr := edit("coreIndex", func(m map[string]interface{}) { m["coreProofFileUri"] = "superfluous" })
				c, a := fs.assemble(tr, nil, fs.count)
				c.Put("superfluous", fx.Gzip(mustJSON(target)))
				caseID := fs.name + "|ref:core-proof-superfluous|" + tn
				if r.Want(caseID) {
					r.Nontrivial(caseID)
					if res := c14Read(r, caseID, p, c, a, nil); res.err == nil {
						r.Violation("accepts:superfluous-core-proof-reference", caseID, "core proof reference without recover/deactivate operations accepted (target: "+tn+")", nil)
					}
				}
			}
		}
		if fs.trees["provIndex"] != nil {
			if fs.trees["provProof"] != nil {
				mustReject("missing-provisional-proof-reference", "ref:prov-proof-removed", p, edit("provIndex", func(m map[string]interface{}) { delete(m, "provisionalProofFileUri") }), nil, fs.count)
			} else {
				targets := map[string]interface{}{"real": sets[0].trees["provProof"], "empty-object": map[string]interface{}{}, "empty-operations": map[string]interface{}{"operations": map[string]interface{}{}},
					"empty-list": map[string]interface{}{"operations": map[string]interface{}{"update": []interface{}{}}}}
				if fs.trees["coreProof"] != nil {
					targets["own-core-proof"] = fs.trees["coreProof"]
				}
				for tn, target := range targets {
					// with the provisional index as written, and with its (possibly absent / empty) operations member in every shape
					for sn, shape := range map[string]func(m map[string]interface{}){
						"as-written":        func(m map[string]interface{}) {},
						"operations-absent": func(m map[string]interface{}) { delete(m, "operations") },
						"operations-empty":  func(m map[string]interface{}) { m["operations"] = map[string]interface{}{} },
						"operations-null":   func(m map[string]interface{}) { m["operations"] = nil },
						"update-empty":      func(m map[string]interface{}) { m["operations"] = map[string]interface{}{"update": []interface{}{}} },
					} {
						tr := edit("provIndex", func(m map[string]interface{}) { shape(m); m["provisionalProofFileUri"] = "superfluous" })
						c, a := fs.assemble(tr, nil, fs.count)
						c.Put("superfluous", fx.Gzip(mustJSON(target)))
						caseID := fs.name + "|ref:prov-proof-superfluous|" + tn + "|" + sn
						if r.Want(caseID) {
							r.Nontrivial(caseID)
							if res := c14Read(r, caseID, p, c, a, nil); res.err == nil {
								r.Violation("accepts:superfluous-provisional-proof-reference", caseID, "provisional proof reference without update operations accepted (target: "+tn+", index operations: "+sn+")", nil)
							}
						}
					}
				}
			}
			mustReject("missing-chunk-reference", "ref:chunks-removed", p, edit("provIndex", func(m map[string]interface{}) { delete(m, "chunks") }), nil, fs.count)
			mustReject("missing-chunk-reference", "ref:chunks-empty", p, edit("provIndex", func(m map[string]interface{}) { m["chunks"] = []interface{}{} }), nil, fs.count)
			mustReject("count-disagreement", "count:chunk-delta-removed", p, edit("chunk", func(m map[string]interface{}) { d := m["deltas"].([]interface{}); m["deltas"] = d[:len(d)-1] }), nil, fs.count)
			mustReject("count-disagreement", "count:chunk-delta-added", p, edit("chunk", func(m map[string]interface{}) {
				d := m["deltas"].([]interface{})
				m["deltas"] = append(d, doc.Clone(d[0]))
			}), nil, fs.count)
			mustReject("missing-provisional-index", "ref:prov-index-removed", p, edit("coreIndex", func(m map[string]interface{}) { delete(m, "provisionalIndexFileUri") }), nil, fs.count)
		}
		for _, file := range []string{"coreProof", "provProof"} {
			if fs.trees[file] == nil {
				continue
			}
			ops := fs.trees[file].(map[string]interface{})["operations"].(map[string]interface{})
			for typ, l := range ops {
				typ := typ
				if arr, ok := l.([]interface{}); ok && len(arr) > 0 {
					mustReject("count-disagreement", "count:"+file+":"+typ+"-removed", p, edit(file, func(m map[string]interface{}) {
						o := m["operations"].(map[string]interface{})
						a := o[typ].([]interface{})
						o[typ] = a[:len(a)-1]
					}), nil, fs.count)
					mustReject("count-disagreement", "count:"+file+":"+typ+"-added", p, edit(file, func(m map[string]interface{}) {
						o := m["operations"].(map[string]interface{})
						a := o[typ].([]interface{})
						o[typ] = append(a, a[0])
					}), nil, fs.count)
				}
			}
		}
		mustReject("count-disagreement", "count:anchor+1", p, fs.trees, nil, fs.count+1)
		if fs.count > 1 {
			mustReject("count-disagreement", "count:anchor-1", p, fs.trees, nil, fs.count-1)
		}

		// byte level ------------------------------------------------------------------
		for _, f := range fileOrder {
			t, ok := fs.trees[f]
			if !ok {
				continue
			}
			gz := fx.Gzip(mustJSON(t))
			var raws [][]byte
			var labels []string
			for i := 0; i < len(gz); i++ {
				raws = append(raws, gz[:i])
				labels = append(labels, fmt.Sprintf("truncate%d", i))
			}
			for i := 0; i < len(gz); i++ {
				if i >= 10 && i < len(gz)-8 {
					continue
				}
				for _, sub := range []byte{0x00, 0xff, gz[i] ^ 1, gz[i] ^ 0x80} {
					if sub == gz[i] {
						continue
					}
					m := append([]byte{}, gz...)
					m[i] = sub
					raws = append(raws, m)
					labels = append(labels, fmt.Sprintf("byte%d=%02x", i, sub))
				}
			}
			raws = append(raws, mustJSON(t), []byte{}, append(append([]byte{}, gz...), gz...), append(append([]byte{}, gz...), 0), fx.Gzip(fx.Gzip(mustJSON(t))), fx.Gzip([]byte("null")), fx.Gzip([]byte("[]")), fx.Gzip([]byte(`"x"`)), fx.Gzip([]byte("{")), fx.Gzip(nil))
			labels = append(labels, "uncompressed", "empty", "concatenated-members", "trailing-garbage", "double-compressed", "null", "array", "string", "truncated-json", "empty-json")
			hx.ParallelFor(len(raws), func(i int) {
				caseID := fmt.Sprintf("%s|bytes|%s|%s", fs.name, f, labels[i])
				if !r.Want(caseID) {
					return
				}
				c, a := fs.assemble(fs.trees, map[string][]byte{f: raws[i]}, fs.count)
				res := c14Read(r, caseID, p, c, a, nil)
				r.Nontrivial(caseID)
				if res.err == nil {
					r.Outcome("byte-level accepted (invariant checked)")
				} else {
					r.Outcome("byte-level rejected")
				}
			})
		}
		// CAS read failures x alternate sources -------------------------------------------
		// alternate-source modes: 0 none; 1 [good]; 2 [bad, good]; 3 [good] with a failing URI formatter; 4 [bad, part] where
		// "part" serves the core index file only; 5 [bad]
		nreads := len(fs.trees)
		goodFormatter := txnprovider.WithSourceCASURIFormatter(func(uri, source string) (string, error) { return source + ":" + uri, nil })
		// c14Faults installs the read faults of one transaction on c (k-th distinct primary address fails iff bit k of mask is
		// set) and returns the transaction's alternate sources
		c14Faults := func(c *fx.MemCAS, anchor string, mask, altMode int) []string {
			primary := map[string]int{}
			c.FailR = func(n int, addr string) bool {
				if strings.HasPrefix(addr, "alt-good:") || strings.HasPrefix(addr, "alt-part:") {
					return false
				}
				if strings.HasPrefix(addr, "alt-bad:") {
					return true
				}
				k, ok := primary[addr]
				if !ok {
					k = len(primary)
					primary[addr] = k
				}
				return mask&(1<<uint(k)) != 0
			}
			coreAddr := anchor[strings.Index(anchor, ".")+1:]
			for ad, b := range c.Data {
				c.Aliases["alt-good:"+ad] = b
				if ad == coreAddr {
					c.Aliases["alt-part:"+ad] = b
				}
			}
			switch altMode {
			case 1, 3:
				return []string{"alt-good"}
			case 2:
				return []string{"alt-bad", "alt-good"}
			case 4:
				return []string{"alt-bad", "alt-part"}
			case 5:
				return []string{"alt-bad"}
			}
			return nil
		}
		type faultCfg struct{ mask, altMode int }
		single := map[faultCfg]string{} // verdict of a fresh provider, for the two-transaction histories below
		for mask := 1; mask < 1<<uint(nreads); mask++ {
			for altMode := 0; altMode < 6; altMode++ {
				caseID := fmt.Sprintf("%s|faults|mask=%d|alt=%d", fs.name, mask, altMode)
				if !r.Want(caseID) {
					continue
				}
				c, a := fs.assemble(fs.trees, nil, fs.count)
				alt := c14Faults(c, a, mask, altMode)
				var opts []txnprovider.Opt
				if altMode == 3 {
					opts = append(opts, txnprovider.WithSourceCASURIFormatter(func(uri, source string) (string, error) { return "", fmt.Errorf("formatter error") }))
				} else if altMode != 0 {
					opts = append(opts, goodFormatter)
				}
				res := c14Read(r, caseID, p, c, a, alt, opts...)
				r.Nontrivial(caseID)
				wantOK := altMode == 1 || altMode == 2 || (altMode == 4 && mask == 1)
				if wantOK && (res.err != nil || len(res.ops) != fs.count) {
					r.Violation("alternate-source-not-used", caseID, fmt.Sprintf("reads %b fail on the primary CAS but an alternate source (mode %d) serves them: err=%v", mask, altMode, res.err), nil)
				}
				if !wantOK && res.err == nil {
					r.Violation("accepts:missing-file", caseID, fmt.Sprintf("reads %b fail and no alternate source can serve them, yet operations were returned", mask), nil)
				}
				if altMode != 3 {
					single[faultCfg{mask, altMode}] = fmt.Sprintf("ok=%v ops=%s", res.err == nil, mustJSON(res.ops))
				}
			}
		}
		// two transactions in a row on ONE provider (a node keeps one provider per protocol version): every ordered pair of
		// (failing reads, alternate sources) configurations; the second transaction must be answered exactly as by a fresh provider
		var cfgs []faultCfg
		for mask := 1; mask < 1<<uint(nreads); mask++ {
			for _, altMode := range []int{0, 1, 2, 4, 5} {
				if r.Tier != "thorough" && nreads > 3 && mask != 1 && mask != 3 && mask != 1<<uint(nreads)-1 && mask != 1<<uint(nreads-1) {
					continue // quick: the full mask set for file sets of up to three files, four masks for the larger ones
				}
				cfgs = append(cfgs, faultCfg{mask, altMode})
			}
		}
		if len(single) > 0 {
			hx.ParallelFor(len(cfgs)*len(cfgs), func(i int) {
				c1, c2 := cfgs[i/len(cfgs)], cfgs[i%len(cfgs)]
				caseID := fmt.Sprintf("%s|faults2|%d/%d>%d/%d", fs.name, c1.mask, c1.altMode, c2.mask, c2.altMode)
				if !r.Want(caseID) {
					return
				}
				want, ok := single[c2]
				if !ok {
					return
				}
				c, a := fs.assemble(fs.trees, nil, fs.count)
				ver := fx.NewVersion(p, &fx.VersionOpts{CAS: c, ProviderOpts: []txnprovider.Opt{goodFormatter}})
				var got string
				func() {
					defer func() {
						if pn := recover(); pn != nil {
							got = fmt.Sprintf("panic: %v", pn)
							r.Violation("panic:GetTxnOperations:second-transaction", caseID, fmt.Sprintf("one provider, transaction with failing reads %b / alternate mode %d, then transaction with failing reads %b / alternate mode %d: %v", c1.mask, c1.altMode, c2.mask, c2.altMode, pn), nil)
						}
					}()
					alt1 := c14Faults(c, a, c1.mask, c1.altMode)
					_, _ = ver.Provider.GetTxnOperations(&txn.SidetreeTxn{Namespace: "did:sidetree", AnchorString: a, TransactionTime: 5, TransactionNumber: 1, AlternateSources: alt1})
					alt2 := c14Faults(c, a, c2.mask, c2.altMode)
					ops2, err2 := ver.Provider.GetTxnOperations(&txn.SidetreeTxn{Namespace: "did:sidetree", AnchorString: a, TransactionTime: 6, TransactionNumber: 2, AlternateSources: alt2})
					got = fmt.Sprintf("ok=%v ops=%s", err2 == nil, mustJSON(ops2))
				}()
				r.Eval()
				r.Trans(2)
				r.Nontrivial(caseID)
				if !strings.HasPrefix(got, "panic") && normTxn(got) != normTxn(want) {
					r.Violation("second-transaction-depends-on-first", caseID, fmt.Sprintf("one provider, transaction with failing reads %b / alternate mode %d, then failing reads %b / alternate mode %d: the second is answered differently from a fresh provider\n  fresh : %.300s\n  reused: %.300s", c1.mask, c1.altMode, c2.mask, c2.altMode, want, got), nil)
				}
			})
		}
		r.Sample(map[string]interface{}{"file_set": fs.name, "files": len(fs.trees), "single_mutations": len(muts)})
	}
	// anchor string grammar
	fs := sets[0]
	cas, anchor := fs.assemble(fs.trees, nil, fs.count)
	core := anchor[strings.Index(anchor, ".")+1:]
	for i, a := range []string{"", ".", "1", "4", "0." + core, "04." + core, "-4." + core, "+4." + core, "4." + core + ".x", "4.", "." + core, "3." + core, "5." + core, " 4." + core, "4 ." + core,
		"4.0." + core, "99999999999999999999." + core, "9223372036854775807." + core, "4e0." + core, "0x4." + core, "４." + core, "4." + strings.Repeat("x", 500), "4.\x00", "4.." + core} {
		caseID := fmt.Sprintf("anchor|%d", i)
		if !r.Want(caseID) {
			continue
		}
		res := c14Read(r, caseID, p, cas.Clone(), a, nil)
		r.Nontrivial(caseID)
		if res.err == nil && a != anchor {
			r.Outcome("anchor variant accepted (invariant checked)")
		}
	}
	// the same grammar as a product: count token x separator x address token (the listed strings above are kept as named cases)
	{
		counts := []string{"", "0", "1", "4", "5", "04", "4 ", " 4", "+4", "-4", "4.0", "4e0", "0x4", "４", "4\n", "18446744073709551620", "4_0"}
		seps := []string{".", "", "..", ":", " . "}
		addrs := []string{core, "", core + ".x", core + " ", " " + core, strings.ToUpper(core), core[:len(core)-1], core + core, "\x00" + core}
		for ci, cn := range counts {
			for si, sp := range seps {
				for ai, ad := range addrs {
					a := cn + sp + ad
					caseID := fmt.Sprintf("anchor-grammar|%d|%d|%d", ci, si, ai)
					if !r.Want(caseID) {
						continue
					}
					res := c14Read(r, caseID, p, cas.Clone(), a, nil)
					r.Nontrivial(caseID)
					if res.err == nil && a != anchor {
						r.Outcome("anchor variant accepted (invariant checked)")
					}
				}
			}
		}
	}
	r.Assumptions = append(r.Assumptions,
		"coverage-guided fuzzing named in the quantifier is a different technique and not used; the mutation space is enumerated completely instead",
		"mutated files are re-compressed and re-addressed, and references that still carry an original address are fixed up so that the mutated file is reachable",
		"when both proof files exist they share MaxProofFileSize; the size boundary is asserted on the larger one")
}
