package props

import (
	"encoding/json"
	"fmt"
	"net/http"
	"net/http/httptest"
	"net/url"
	"sort"
	"strings"
	"time"

	"github.com/gorilla/mux"
	"github.com/trustbloc/sidetree-core-go/pkg/api/operation"
	"github.com/trustbloc/sidetree-core-go/pkg/api/protocol"
	"github.com/trustbloc/sidetree-core-go/pkg/dochandler"
	"github.com/trustbloc/sidetree-core-go/pkg/document"
	"github.com/trustbloc/sidetree-core-go/pkg/processor"
	restapi "github.com/trustbloc/sidetree-core-go/pkg/restapi/dochandler"

	"verif/mc/fx"
	"verif/mc/hx"
	"verif/mc/ref/doc"
	"verif/mc/ref/jcs"
	"verif/mc/ref/sidetree"
)

func init() { register("C06", c06) }

func opRefs(ops []*operation.AnchoredOperation) string {
	var ks []string
	for _, o := range ops {
		ks = append(ks, fmt.Sprintf("%s@%d.%d/%s", o.Type, o.TransactionTime, o.TransactionNumber, o.CanonicalReference))
	}
	sort.Strings(ks)
	return strings.Join(ks, ",")
}

type histResult struct {
	R     Result
	Pub   string
	Unpub string
}

func projectHist(rm *protocol.ResolutionModel, err error) histResult {
	h := histResult{R: ProjectImpl(rm, err)}
	if err == nil && rm != nil {
		h.Pub, h.Unpub = opRefs(rm.PublishedOperations), opRefs(rm.UnpublishedOperations)
	}
	return h
}

func c06(r *hx.Run) {
	fx.Quiet()
	client, v := stdClient()
	delta := v.P.MaxOperationTimeDelta
	r.Rule = "for every history of <=3 (thorough: <=4 over a sub-alphabet) anchored operations (legitimate alphabet, published and unpublished, non-monotone coordinates) x every cut time T in {pre-epoch, 0..maxTime+1} (each also spelled with UTC offsets +05:00 / -03:30 / +00:00 and with fractional seconds: same cut) x every version id present or unknown x every single later-anchored extension (placed in the store, and passed by the caller through WithAdditionalOperations before and after the version option; every cut also with unset (nil) options around the version option; every version-id cut also with each published operation of the history moved from the store into WithAdditionalOperations): Resolve(history, WithVersionTime/WithVersionID) on the real processor must equal Resolve over the truncated history on the real processor (metamorphic) and the reference model; after a cut resolution on one processor instance the store is made to fail: the next resolution is an error or the current state, never the earlier cut; unknown version id / empty truncation must be an error. The same cuts go through the REST resolve handler (versionId / versionTime / both) for two histories, addressed by the short-form and by the long-form DID: status and document must agree with the processor view (an unknown version of an anchored DID is an error in both forms). Non-trivial: the cut removes at least one and keeps at least one operation."
	pool := fx.NewPool(fx.Ed25519, fx.SHA256, "ok")
	alpha := []string{"C", "C~h", "U01", "U01b", "U12", "U01~w", "U01~p", "R01", "R12", "V01", "D0", "D1", "Fc(U01)", "U10"}
	grid := []Coord{{1, 0}, {1, 2}, {2, 0}, {2, 1}, {3, 0}}
	depth := 3
	if r.Tier == "thorough" {
		depth = 4
	}
	e := &histEnum{pool: pool, alpha: alpha, coords: grid, depth: depth, pubModes: "p"}
	eu := &histEnum{pool: pool, alpha: []string{"C", "U01", "U01b", "U12", "R01", "D0", "V01"}, coords: grid[:4], depth: 3, pubModes: "pu"}
	ext := []string{"U01", "U12", "R01", "D0", "C~h"}
	checkHist := func(tag string) func(placed []fx.Placed) {
		return func(placed []fx.Placed) {
			if len(placed) == 0 {
				return
			}
			key := tag + "|" + HistKey(placed)
			r.State()
			var maxT uint64
			for _, pl := range placed {
				if pl.Time > maxT {
					maxT = pl.Time
				}
			}
			// ---- version time cuts
			for T := int64(-1); T <= int64(maxT)+1; T++ {
				caseID := fmt.Sprintf("%s|T=%d", key, T)
				if !r.Want(caseID) {
					continue
				}
				ts := time.Unix(T, 0).UTC().Format(time.RFC3339)
				var kept []fx.Placed
				for _, pl := range placed {
					if T >= 0 && pl.Time <= uint64(T) {
						kept = append(kept, pl)
					}
				}
				got := projectHist(ResolveImpl(client, pool.Suffix, placed, document.WithVersionTime(ts)))
				// unset (nil) options around the version option are skipped, not a reason to drop the options behind them
				if gotNil := projectHist(ResolveImpl(client, pool.Suffix, placed, nil, document.WithVersionTime(ts), nil)); gotNil != got {
					r.Violation("version-time-nil-option:"+diffFields(gotNil.R, got.R), caseID+"|nil-options",
						fmt.Sprintf("history %v at T=%d: Resolve(nil, WithVersionTime, nil) differs from Resolve(WithVersionTime)\n  with nils: %s\n  without  : %s", placedDesc(placed), T, gotNil.R, got.R), nil)
				}
				r.Eval()
				// other spellings of the same instant (UTC offsets, fractional seconds) cut at the same place
				if T >= 0 {
					for _, sp := range c06Spellings(T) {
						if gotSp := projectHist(ResolveImpl(client, pool.Suffix, placed, document.WithVersionTime(sp))); gotSp != got {
							r.Violation("version-time-spelling:"+diffFields(gotSp.R, got.R), caseID+"|"+sp,
								fmt.Sprintf("history %v: versionTime %s and %s name the same second but resolve differently\n  %s: %s\n  %s: %s", placedDesc(placed), ts, sp, ts, got.R, sp, gotSp.R), nil)
						}
						r.Eval()
					}
				}
				// one processor instance, then the operation store starts failing: a resolution during the outage is an error (or,
				// should an implementation remember operations, the right answer) - never the view of the earlier cut
				if T >= 0 && len(kept) > 0 && len(kept) < len(placed) {
					// the store hands out its OWN slice (with spare capacity), as simple stores do: a cut resolution must not disturb it
					fs := &c06FlakyStore{ops: make([]*operation.AnchoredOperation, 0, len(placed)+4)}
					var un unpubStore
					for _, pl := range placed {
						if pl.Published {
							fs.ops = append(fs.ops, pl.Anchored(pool.Suffix))
						} else {
							un = append(un, pl.Anchored(pool.Suffix))
						}
					}
					allPublished := len(fs.ops) == len(placed)
					if !allPublished && len(fs.ops) > 0 {
						proc := processor.New("verif", fs, client, processor.WithUnpublishedOperationStore(un))
						_, _ = proc.Resolve(pool.Suffix, document.WithVersionTime(ts))
						again := projectHist(proc.Resolve(pool.Suffix))
						r.Eval()
						if full := projectHist(ResolveImpl(client, pool.Suffix, placed)); again != full {
							r.Violation("cut-resolution-disturbs-the-store:"+diffFields(again.R, full.R), caseID+"|second-resolution",
								fmt.Sprintf("history %v: after a resolution at versionTime %s the same processor / store resolves the current state differently from a fresh one\n  second: %s pub=[%s] unpub=[%s]\n  fresh : %s pub=[%s] unpub=[%s]", placedDesc(placed), ts, again.R, again.Pub, again.Unpub, full.R, full.Pub, full.Unpub), nil)
						}
					}
					if allPublished {
						proc := processor.New("verif", fs, client)
						_, _ = proc.Resolve(pool.Suffix, document.WithVersionTime(ts))
						fs.fail = true
						rmF, errF := proc.Resolve(pool.Suffix)
						r.Eval()
						if errF == nil {
							full := projectHist(ResolveImpl(client, pool.Suffix, placed))
							if gotF := projectHist(rmF, errF); gotF != full {
								r.Violation("store-outage-serves-earlier-cut:"+diffFields(gotF.R, full.R), caseID+"|outage",
									fmt.Sprintf("history %v: after a resolution at versionTime %s the store fails; the next resolution (no version option) returned a result that is not the current state\n  got    : %s\n  current: %s", placedDesc(placed), ts, gotF.R, full.R), nil)
							}
						}
					}
				}
				if len(placed) > 1 {
					rev := make([]fx.Placed, len(placed))
					for ri := range placed {
						rev[len(placed)-1-ri] = placed[ri]
					}
					if gotRev := projectHist(ResolveImpl(client, pool.Suffix, rev, document.WithVersionTime(ts))); gotRev != got {
						r.Violation("version-time-store-order:"+diffFields(gotRev.R, got.R), caseID+"|reversed",
							fmt.Sprintf("history %v at T=%d depends on the store order\n  in order: %s\n  reversed: %s", placedDesc(placed), T, got.R, gotRev.R), nil)
					}
					r.Eval()
				}
				var want histResult
				if len(kept) == 0 {
					want = histResult{R: Result{Err: true}}
				} else {
					want = projectHist(ResolveImpl(client, pool.Suffix, kept))
				}
				st, merr := ResolveModel(placed, &sidetree.Cut{HasTime: true, Time: T}, delta)
				model := ProjectModel(st, merr)
				r.Eval()
				r.Trans(1)
				r.Trace(1)
				if len(kept) > 0 && len(kept) < len(placed) {
					r.Nontrivial(caseID)
				}
				r.Outcome(fmt.Sprintf("time-cut kept=%d/%d err=%v", len(kept), len(placed), got.R.Err))
				if got != want || got.R != model {
					class := "version-time:" + diffFields(got.R, want.R)
					if T < 0 {
						class = "version-time-pre-epoch"
					}
					r.Violation(class, caseID,
						fmt.Sprintf("history %v resolved at versionTime %s (T=%d)\n  got      : %s pub=[%s] unpub=[%s]\n  truncated: %s pub=[%s] unpub=[%s]\n  model    : %s", placedDesc(placed), ts, T,
							got.R, got.Pub, got.Unpub, want.R, want.Pub, want.Unpub, model),
						map[string]interface{}{"history": placedDesc(placed), "T": T})
				}
				// later-anchored extension must not matter
				if T >= 0 && T <= int64(maxT) {
					for _, x := range ext {
						extended := append(append([]fx.Placed{}, placed...), fx.Placed{Op: pool.Get(x), Time: maxT + 1, Num: 0, Published: true})
						got2 := projectHist(ResolveImpl(client, pool.Suffix, extended, document.WithVersionTime(ts)))
						r.Eval()
						if got2 != got {
							r.Violation("version-time-extension:"+diffFields(got2.R, got.R), caseID+"|ext="+x,
								fmt.Sprintf("history %v at T=%d changes when %s is anchored later at %d.0\n  before: %s\n  after : %s", placedDesc(placed), T, x, maxT+1, got.R, got2.R), nil)
						}
						// the same extension supplied by the caller as an additional operation, option before / after the version option
						if r.Tier == "quick" && x != "U01" && x != "R01" { // quick: two of the five extensions this way; thorough: all
							continue
						}
						add := document.WithAdditionalOperations([]*operation.AnchoredOperation{extended[len(extended)-1].Anchored(pool.Suffix)})
						for oi, opts := range [][]document.ResolutionOption{{add, document.WithVersionTime(ts)}, {document.WithVersionTime(ts), add}} {
							got3 := projectHist(ResolveImpl(client, pool.Suffix, placed, opts...))
							r.Eval()
							if got3 != got {
								r.Violation("version-time-additional-ops:"+diffFields(got3.R, got.R), fmt.Sprintf("%s|add=%s|order=%d", caseID, x, oi),
									fmt.Sprintf("history %v at T=%d changes when %s (anchored later at %d.0) is passed as an additional operation (option order %d)\n  before: %s\n  after : %s", placedDesc(placed), T, x, maxT+1, oi, got.R, got3.R), nil)
							}
						}
					}
				}
			}
			// ---- version id cuts
			ordered := sidetreeOrder(placed)
			refs := []string{"nope"}
			for _, pl := range ordered {
				if pl.Published {
					refs = append(refs, pl.Ref())
				}
			}
			for _, V := range refs {
				caseID := fmt.Sprintf("%s|V=%s", key, V)
				if !r.Want(caseID) {
					continue
				}
				var kept []fx.Placed
				found := false
				for _, pl := range ordered {
					if !pl.Published {
						continue
					}
					kept = append(kept, pl)
					if pl.Ref() == V {
						found = true
						break
					}
				}
				got := projectHist(ResolveImpl(client, pool.Suffix, placed, document.WithVersionID(V)))
				if gotNil := projectHist(ResolveImpl(client, pool.Suffix, placed, nil, document.WithVersionID(V), nil)); gotNil != got {
					r.Violation("version-id-nil-option:"+diffFields(gotNil.R, got.R), caseID+"|nil-options",
						fmt.Sprintf("history %v at versionId %s: Resolve(nil, WithVersionID, nil) differs from Resolve(WithVersionID)\n  with nils: %s\n  without  : %s", placedDesc(placed), V, gotNil.R, got.R), nil)
				}
				r.Eval()
				// the store may return operations in any order: reversed order must give the same historical view
				rev := make([]fx.Placed, len(placed))
				for ri := range placed {
					rev[len(placed)-1-ri] = placed[ri]
				}
				if gotRev := projectHist(ResolveImpl(client, pool.Suffix, rev, document.WithVersionID(V))); gotRev != got {
					r.Violation("version-id-store-order:"+diffFields(gotRev.R, got.R), caseID+"|reversed",
						fmt.Sprintf("history %v at versionId %s depends on the store order\n  in order: %s\n  reversed: %s", placedDesc(placed), V, got.R, gotRev.R), nil)
				}
				r.Eval()
				var want histResult
				if !found {
					want = histResult{R: Result{Err: true}}
				} else {
					want = projectHist(ResolveImpl(client, pool.Suffix, kept))
				}
				st, merr := ResolveModel(placed, &sidetree.Cut{Version: V}, delta)
				model := ProjectModel(st, merr)
				r.Eval()
				r.Trans(1)
				r.Trace(1)
				if found && len(kept) < len(placed) {
					r.Nontrivial(caseID)
				}
				r.Outcome(fmt.Sprintf("id-cut found=%v err=%v", found, got.R.Err))
				if got != want || got.R != model {
					r.Violation("version-id:"+diffFields(got.R, want.R), caseID,
						fmt.Sprintf("history %v resolved at versionId %s\n  got      : %s pub=[%s]\n  truncated: %s pub=[%s]\n  model    : %s", placedDesc(placed), V, got.R, got.Pub, want.R, want.Pub, model),
						map[string]interface{}{"history": placedDesc(placed), "V": V})
				}
				// the same history with one of its published operations delivered by the caller (WithAdditionalOperations) instead of
				// by the store: the historical view is the same
				if found && len(placed) > 1 {
					for mi, moved := range placed {
						if !moved.Published {
							continue
						}
						rest := append(append([]fx.Placed{}, placed[:mi]...), placed[mi+1:]...)
						hasPub := false
						for _, pl := range rest {
							hasPub = hasPub || pl.Published
						}
						if !hasPub {
							continue // the store must know the DID
						}
						add := document.WithAdditionalOperations([]*operation.AnchoredOperation{moved.Anchored(pool.Suffix)})
						got4 := projectHist(ResolveImpl(client, pool.Suffix, rest, add, document.WithVersionID(V)))
						r.Eval()
						if got4 != got {
							r.Violation("version-id-additional-ops-earlier:"+diffFields(got4.R, got.R), fmt.Sprintf("%s|moved=%d", caseID, mi),
								fmt.Sprintf("history %v at versionId %s changes when %s is delivered as an additional operation instead of by the store\n  store only : %s pub=[%s]\n  with moved : %s pub=[%s]", placedDesc(placed), V, moved.Op.ID, got.R, got.Pub, got4.R, got4.Pub), nil)
						}
					}
				}
				if found {
					for _, x := range ext {
						extended := append(append([]fx.Placed{}, placed...), fx.Placed{Op: pool.Get(x), Time: maxT + 1, Num: 0, Published: true})
						got2 := projectHist(ResolveImpl(client, pool.Suffix, extended, document.WithVersionID(V)))
						r.Eval()
						if got2 != got {
							r.Violation("version-id-extension:"+diffFields(got2.R, got.R), caseID+"|ext="+x,
								fmt.Sprintf("history %v at versionId %s changes when %s is anchored later\n  before: %s\n  after : %s", placedDesc(placed), V, x, got.R, got2.R), nil)
						}
						if r.Tier == "quick" && x != "U01" && x != "R01" {
							continue
						}
						add := document.WithAdditionalOperations([]*operation.AnchoredOperation{extended[len(extended)-1].Anchored(pool.Suffix)})
						for oi, opts := range [][]document.ResolutionOption{{add, document.WithVersionID(V)}, {document.WithVersionID(V), add}} {
							got3 := projectHist(ResolveImpl(client, pool.Suffix, placed, opts...))
							r.Eval()
							if got3 != got {
								r.Violation("version-id-additional-ops:"+diffFields(got3.R, got.R), fmt.Sprintf("%s|add=%s|order=%d", caseID, x, oi),
									fmt.Sprintf("history %v at versionId %s changes when %s (anchored later) is passed as an additional operation (option order %d)\n  before: %s\n  after : %s", placedDesc(placed), V, x, oi, got.R, got3.R), nil)
							}
						}
					}
				}
			}
			r.Sample(map[string]interface{}{"history": placedDesc(placed), "cuts": fmt.Sprintf("T=-1..%d, V in %v", maxT+1, refs)})
		}
	}
	e.run(r, checkHist("P"))
	eu.run(r, checkHist("U"))
	// version-id cuts on coordinates that need the full width of uint64 (times / numbers 2^63 and more apart): resolving at the
	// version id of an operation equals resolving the operations anchored at or before it
	ew := &histEnum{pool: pool, alpha: []string{"C", "U01", "U12", "R01", "V01", "D0"}, coords: wideGrid, depth: 3, pubModes: "p"}
	ew.run(r, func(placed []fx.Placed) {
		for _, at := range placed {
			caseID := "wide|" + HistKey(placed) + "|V=" + at.Ref()
			if !r.Want(caseID) {
				continue
			}
			var kept []fx.Placed
			for _, pl := range placed {
				if pl.Time < at.Time || (pl.Time == at.Time && pl.Num <= at.Num) {
					kept = append(kept, pl)
				}
			}
			got := projectHist(ResolveImpl(client, pool.Suffix, placed, document.WithVersionID(at.Ref())))
			want := projectHist(ResolveImpl(client, pool.Suffix, kept))
			r.Eval()
			r.Trans(1)
			if len(kept) < len(placed) {
				r.Nontrivial(caseID)
			}
			if got != want {
				r.Violation("version-id-wide-coordinates:"+diffFields(got.R, want.R), caseID,
					fmt.Sprintf("history %v resolved at versionId %s\n  got      : %s pub=[%s]\n  truncated: %s pub=[%s]", placedDesc(placed), at.Ref(), got.R, got.Pub, want.R, want.Pub), nil)
			}
		}
	})
	c06REST(r, pool, client)
	r.Assumptions = append(r.Assumptions,
		"'truncated history' for a version id = the published operations up to and including the referenced one in (time, number) order; for a version time = all operations (published or not) with transaction time <= T",
		"a version time before the epoch precedes every operation and must therefore be an error")
}

func sidetreeOrder(placed []fx.Placed) []fx.Placed {
	out := append([]fx.Placed(nil), placed...)
	sort.SliceStable(out, func(i, j int) bool {
		a, b := out[i], out[j]
		if a.Published != b.Published {
			return a.Published
		}
		if a.Time != b.Time {
			return a.Time < b.Time
		}
		return a.Num < b.Num
	})
	return out
}

// c06FlakyStore is an operation store that can be switched to failing.
type c06FlakyStore struct {
	ops  []*operation.AnchoredOperation
	fail bool
}

func (s *c06FlakyStore) Get(string) ([]*operation.AnchoredOperation, error) {
	if s.fail {
		return nil, fmt.Errorf("connection refused")
	}
	return s.ops, nil
}

// c06Spellings returns other RFC 3339 spellings of the second T: two non-zero UTC offsets, +00:00 and fractional seconds.
func c06Spellings(T int64) []string {
	t := time.Unix(T, 0)
	return []string{
		t.In(time.FixedZone("", 5*3600)).Format(time.RFC3339),
		t.In(time.FixedZone("", -(3*3600 + 1800))).Format(time.RFC3339),
		t.UTC().Format("2006-01-02T15:04:05") + "+00:00",
		t.UTC().Format("2006-01-02T15:04:05") + ".500Z",
	}
}

// c06REST drives the same cuts through the REST resolve handler (query parameters versionId / versionTime) over a real
// DocumentHandler and requires the answer to agree with the processor-level historical view.
func c06REST(r *hx.Run, pool *fx.Pool, client protocol.Client) {
	const ns = "did:sidetree"
	hists := [][]fx.Placed{
		{{Op: pool.Get("C"), Time: 1, Num: 5, Published: true}, {Op: pool.Get("U01"), Time: 2, Num: 3, Published: true}, {Op: pool.Get("U12"), Time: 2, Num: 4, Published: true}, {Op: pool.Get("U23"), Time: 4, Num: 0, Published: true}},
		{{Op: pool.Get("C"), Time: 1, Num: 0, Published: true}, {Op: pool.Get("R01"), Time: 3, Num: 0, Published: true}, {Op: pool.Get("V01"), Time: 3, Num: 1, Published: true}, {Op: pool.Get("D1"), Time: 5, Num: 0, Published: true}},
	}
	for hi, h := range hists {
		var pub fx.SliceStore
		for i := len(h) - 1; i >= 0; i-- { // reversed store order
			pub = append(pub, h[i].Anchored(pool.Suffix))
		}
		proc := processor.New("verif", pub, client)
		handler := dochandler.New(ns, nil, client, &recWriter{}, proc, fx.Metrics)
		rh := restapi.NewResolveHandler(handler, fx.Metrics)
		shortDID := ns + ":" + pool.Suffix
		ct := fx.MustJSON(string(pool.Get("C").Req)).(map[string]interface{})
		delete(ct, "type")
		longDID := shortDID + ":" + fx.B64(jcs.MustCanon(ct))
		for fi, did := range []string{shortDID, longDID} {
			formTag := []string{"", "|long-form"}[fi]
			get := func(query string) (*document.ResolutionResult, int) {
				rw := httptest.NewRecorder()
				req := mux.SetURLVars(httptest.NewRequest(http.MethodGet, "/identifiers/x"+query, nil), map[string]string{"id": did})
				rh.Resolve(rw, req)
				if rw.Code != http.StatusOK {
					return nil, rw.Code
				}
				var res document.ResolutionResult
				if err := json.Unmarshal(rw.Body.Bytes(), &res); err != nil {
					return nil, -1
				}
				return &res, rw.Code
			}
			check := func(caseID, query string, opt document.ResolutionOption) {
				caseID += formTag
				if !r.Want(caseID) {
					return
				}
				rm, err := proc.Resolve(pool.Suffix, opt)
				res, code := get(query)
				r.Eval()
				r.State()
				r.Trans(1)
				r.Trace(1)
				r.Nontrivial(caseID)
				if (err == nil) != (code == http.StatusOK) {
					r.Violation("rest-historical-status", caseID, fmt.Sprintf("history %v query %q: HTTP %d, processor error %v", placedDesc(h), query, code, err), nil)
					return
				}
				if err != nil {
					return
				}
				want := refProject(doc.Plain(map[string]interface{}(rm.Doc)).(map[string]interface{}), shortDID, c19Opts{})
				md := doc.Plain(res.DocumentMetadata).(map[string]interface{})
				if canonOf(res.Document) != canonOf(want) || fmt.Sprint(md["versionId"]) != fmt.Sprint(nilIfEmpty(rm.VersionID)) {
					r.Violation("rest-historical-view", caseID, fmt.Sprintf("history %v query %q: REST answer (versionId %v) differs from the processor's historical view (versionId %q)\n  rest: %s\n  want: %s",
						placedDesc(h), query, md["versionId"], rm.VersionID, hx.Trunc(canonOf(res.Document), 400), hx.Trunc(canonOf(want), 400)), nil)
				}
			}
			for _, pl := range h {
				check(fmt.Sprintf("rest|%d|V=%s", hi, pl.Ref()), "?versionId="+pl.Ref(), document.WithVersionID(pl.Ref()))
			}
			check(fmt.Sprintf("rest|%d|V=unknown", hi), "?versionId=nope", document.WithVersionID("nope"))
			for T := int64(-1); T <= 6; T++ {
				ts := time.Unix(T, 0).UTC().Format(time.RFC3339)
				check(fmt.Sprintf("rest|%d|T=%d", hi, T), "?versionTime="+ts, document.WithVersionTime(ts))
				if T >= 0 {
					// the same instant spelled with a UTC offset / fractional seconds (query-escaped): same view as the UTC spelling
					for si, sp := range c06Spellings(T) {
						check(fmt.Sprintf("rest|%d|T=%d|spelling%d", hi, T, si), "?versionTime="+url.QueryEscape(sp), document.WithVersionTime(ts))
					}
				}
			}
			check(fmt.Sprintf("rest|%d|T=garbage", hi), "?versionTime=yesterday", document.WithVersionTime("yesterday"))
			caseID := fmt.Sprintf("rest|%d|both%s", hi, formTag)
			if r.Want(caseID) {
				if _, code := get("?versionId=" + h[0].Ref() + "&versionTime=1970-01-01T00:00:02Z"); code != http.StatusBadRequest {
					r.Violation("rest-both-parameters", caseID, fmt.Sprintf("versionId and versionTime together answered HTTP %d, want 400", code), nil)
				}
			}
		}
	}
}
