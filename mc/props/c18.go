package props

import (
	"encoding/json"
	"fmt"
	"net/url"
	"regexp"
	"sort"
	"strings"

	"github.com/trustbloc/sidetree-core-go/pkg/document"
	"github.com/trustbloc/sidetree-core-go/pkg/patch"
	"github.com/trustbloc/sidetree-core-go/pkg/versions/1_0/doccomposer"
	"github.com/trustbloc/sidetree-core-go/pkg/versions/1_0/model"

	"verif/mc/fx"
	"verif/mc/hx"
	"verif/mc/ref/doc"
)

func init() {
	register("C18", c18)
	Workers["C18"] = c18Worker
}

type c18Req struct {
	Patch map[string]interface{} `json:"patch"`
	Doc   map[string]interface{} `json:"doc"`
}

type c18Resp struct {
	Err     string   `json:"err,omitempty"`
	Panic   string   `json:"panic,omitempty"`
	Changed []string `json:"changed,omitempty"`
}

// c18Worker applies one accepted patch to one document with the real composer (inside a worker subprocess).
func c18Worker(req []byte) []byte {
	var q c18Req
	var resp c18Resp
	if err := json.Unmarshal(req, &q); err != nil {
		resp.Err = "bad request: " + err.Error()
		return mustJSON(resp)
	}
	var pp patch.Patch
	_ = json.Unmarshal(mustJSON(q.Patch), &pp)
	before := map[string]string{"publicKey": string(mustJSON(q.Doc["publicKey"])), "service": string(mustJSON(q.Doc["service"]))}
	func() {
		defer func() {
			if pn := recover(); pn != nil {
				resp.Panic = fmt.Sprint(pn)
			}
		}()
		out, err := doccomposer.New().ApplyPatches(document.Document(q.Doc), []patch.Patch{pp})
		if err != nil {
			resp.Err = err.Error()
			return
		}
		for _, sec := range []string{"publicKey", "service"} {
			if string(mustJSON(out[sec])) != before[sec] {
				resp.Changed = append(resp.Changed, sec+": "+before[sec]+" -> "+string(mustJSON(out[sec])))
			}
		}
	}()
	return mustJSON(resp)
}

var c18IDRe = regexp.MustCompile(`^[A-Za-z0-9_-]{1,50}$`)

var c18Verification = map[string]bool{"Bls12381G2Key2020": true, "JsonWebKey2020": true, "EcdsaSecp256k1VerificationKey2019": true, "Ed25519VerificationKey2018": true, "Ed25519VerificationKey2020": true}
var c18Agreement = map[string]bool{"Bls12381G2Key2020": true, "JsonWebKey2020": true, "EcdsaSecp256k1VerificationKey2019": true, "X25519KeyAgreementKey2019": true}

func c18PurposeAllows(purpose, typ string) bool {
	switch purpose {
	case "authentication", "assertionMethod", "capabilityDelegation", "capabilityInvocation":
		return c18Verification[typ]
	case "keyAgreement":
		return c18Agreement[typ]
	}
	return false
}

// refKeysOK encodes the statement's rules for a list of key entries ("" = ok).
func refKeysOK(v interface{}) string {
	list, ok := v.([]interface{})
	if !ok {
		return "" // shape is not covered by a rule of the statement
	}
	ids := map[string]bool{}
	for _, e := range list {
		m, ok := e.(map[string]interface{})
		if !ok {
			continue
		}
		id, isStr := m["id"].(string)
		if !isStr || !c18IDRe.MatchString(id) {
			return "key id must be 1-50 URL-safe characters"
		}
		if ids[id] {
			return "key id not unique within the patch"
		}
		ids[id] = true
		typ, _ := m["type"].(string)
		if ps, ok := m["purposes"].([]interface{}); ok {
			for _, p := range ps {
				if s, ok := p.(string); ok && !c18PurposeAllows(s, typ) {
					return "key type not permitted for purpose " + s
				}
			}
		}
		nMaterial := 0
		for _, k := range []string{"publicKeyJwk", "publicKeyBase58", "publicKeyMultibase"} {
			if _, has := m[k]; has {
				nMaterial++
			}
		}
		if nMaterial != 1 {
			return "exactly one key-material member required"
		}
	}
	return ""
}

func refURIOK(s string) bool {
	if s == "" {
		return false
	}
	_, err := url.ParseRequestURI(s)
	return err == nil
}

func refServicesOK(v interface{}) string {
	list, ok := v.([]interface{})
	if !ok {
		return ""
	}
	ids := map[string]bool{}
	for _, e := range list {
		m, ok := e.(map[string]interface{})
		if !ok {
			continue
		}
		id, isStr := m["id"].(string)
		if !isStr || !c18IDRe.MatchString(id) {
			return "service id must be 1-50 URL-safe characters"
		}
		if ids[id] {
			return "service id not unique within the patch"
		}
		ids[id] = true
		if t, ok := m["type"].(string); ok && len(t) > 30 {
			return "service type longer than 30 characters"
		}
		switch ep := m["serviceEndpoint"].(type) {
		case string:
			if !refURIOK(ep) {
				return "service endpoint is not a valid URI"
			}
		case []interface{}:
			for _, x := range ep {
				if s, ok := x.(string); ok && !refURIOK(s) {
					return "service endpoint list contains an invalid URI"
				}
			}
		}
	}
	return ""
}

func inSection(p string) bool {
	for _, sec := range []string{"/publicKey", "/service"} {
		if p == sec || strings.HasPrefix(p, sec+"/") {
			return true
		}
	}
	return p == "" // the whole document lies above both sections
}

// Pointers that do not start with "/" are not RFC 6901 pointers; what they address is engine-specific, so the
// structural predicate does not judge them - the behavioural oracle (sections unchanged after application) does.

func refJSONPatchOK(v interface{}) string {
	list, ok := v.([]interface{})
	if !ok {
		return ""
	}
	for _, e := range list {
		m, ok := e.(map[string]interface{})
		if !ok {
			continue
		}
		if p, ok := m["path"].(string); ok && inSection(p) {
			return "path addresses the key/service sections"
		}
		op, _ := m["op"].(string)
		if op == "move" || op == "copy" {
			if f, ok := m["from"].(string); ok && inSection(f) {
				return "from addresses the key/service sections"
			}
		}
	}
	return ""
}

// refPatchOK is the structural predicate of the statement for one patch value ("" = ok).
func refPatchOK(p map[string]interface{}) string {
	switch p["action"] {
	case "add-public-keys":
		return refKeysOK(p["publicKeys"])
	case "add-services":
		return refServicesOK(p["services"])
	case "replace":
		d, ok := p["document"].(map[string]interface{})
		if !ok {
			return ""
		}
		if why := refKeysOK(d["publicKeys"]); why != "" {
			return why
		}
		return refServicesOK(d["services"])
	case "ietf-json-patch":
		return refJSONPatchOK(p["patches"])
	}
	return ""
}

func c18KeyVariants() []interface{} {
	kA := fx.NewKey(fx.Ed25519, "c18/a")
	jwk := map[string]interface{}{"kty": kA.JWK.Kty, "crv": kA.JWK.Crv, "x": kA.JWK.X}
	ids := []interface{}{absent{}, "", "a", strings.Repeat("k", 50), strings.Repeat("k", 51), "bad id", "a/b", "k~1", "é", 123.0, nil, "key-1_Z"}
	types := []interface{}{"Bls12381G2Key2020", "JsonWebKey2020", "EcdsaSecp256k1VerificationKey2019", "X25519KeyAgreementKey2019", "Ed25519VerificationKey2018", "Ed25519VerificationKey2020", "Unknown2020", absent{}, 7.0}
	purposes := []interface{}{absent{}, []interface{}{}, []interface{}{"authentication"}, []interface{}{"assertionMethod"}, []interface{}{"keyAgreement"}, []interface{}{"capabilityDelegation"}, []interface{}{"capabilityInvocation"},
		[]interface{}{"authentication", "assertionMethod", "keyAgreement", "capabilityDelegation", "capabilityInvocation"},
		[]interface{}{"authentication", "assertionMethod", "keyAgreement", "capabilityDelegation", "capabilityInvocation", "authentication"},
		[]interface{}{"unknown"}, []interface{}{"authentication", "keyAgreement"}, "authentication", []interface{}{1.0}, []interface{}{"Authentication"}}
	type mat struct{ jwk, b58 interface{} }
	materials := []mat{{jwk, absent{}}, {absent{}, "3M5RCDjPTWPkKSN3sxUmmMqHbmRPegYP1tjcKyrDbt9J"}, {jwk, "3M5RCDjPTWPkKSN3sxUmmMqHbmRPegYP1tjcKyrDbt9J"}, {absent{}, absent{}},
		{map[string]interface{}{"kty": "OKP", "crv": "Ed25519"}, absent{}}, {"not-an-object", absent{}}, {absent{}, ""}, {absent{}, 5.0}, {nil, absent{}}, {jwk, nil}}
	var out []interface{}
	for _, id := range ids {
		for _, t := range types {
			for _, pu := range purposes {
				for _, m := range materials {
					e := map[string]interface{}{}
					set := func(k string, v interface{}) {
						if _, isAbsent := v.(absent); !isAbsent {
							e[k] = v
						}
					}
					set("id", id)
					set("type", t)
					set("purposes", pu)
					set("publicKeyJwk", m.jwk)
					set("publicKeyBase58", m.b58)
					out = append(out, e)
				}
			}
		}
	}
	// every subset of the three key-material members, for every type
	for _, t := range types[:6] {
		for mask := 0; mask < 8; mask++ {
			e := map[string]interface{}{"id": "k1", "type": t, "purposes": []interface{}{"authentication"}}
			if mask&1 != 0 {
				e["publicKeyJwk"] = jwk
			}
			if mask&2 != 0 {
				e["publicKeyBase58"] = "3M5RCDjPTWPkKSN3sxUmmMqHbmRPegYP1tjcKyrDbt9J"
			}
			if mask&4 != 0 {
				e["publicKeyMultibase"] = "z6MkhaXgBZDvotDkL5257faiztiGiC2QtKLGpbnnEGta2doK"
			}
			out = append(out, e)
		}
	}
	// extra members
	out = append(out, map[string]interface{}{"id": "k1", "type": "JsonWebKey2020", "publicKeyJwk": jwk, "foo": 1.0},
		map[string]interface{}{"id": "k1", "type": "JsonWebKey2020", "publicKeyJwk": jwk, "controller": "x"},
		map[string]interface{}{"id": "k1", "type": "Ed25519VerificationKey2020", "publicKeyMultibase": "z6Mk"})
	return out
}

type absent struct{}

func c18ServiceVariants() []interface{} {
	ids := []interface{}{absent{}, "", "s", strings.Repeat("s", 50), strings.Repeat("s", 51), "bad id", "s/1", 5.0, "svc-1_Z"}
	types := []interface{}{absent{}, "", strings.Repeat("t", 30), strings.Repeat("t", 31), 5.0, "LinkedDomains"}
	ok, bad := "https://example.com/x", "not a uri"
	eps := []interface{}{ok, bad, "", "/relative", "urn:x:y", []interface{}{ok}, []interface{}{ok, bad}, []interface{}{bad, ok}, []interface{}{map[string]interface{}{"a": 1.0}},
		[]interface{}{map[string]interface{}{"a": 1.0}, bad}, []interface{}{ok, ok, ""}, map[string]interface{}{"uri": bad}, 5.0, absent{}, nil, []interface{}{ok, 5.0}, []interface{}{}}
	var out []interface{}
	for _, id := range ids {
		for _, t := range types {
			for _, ep := range eps {
				e := map[string]interface{}{}
				set := func(k string, v interface{}) {
					if _, isAbsent := v.(absent); !isAbsent {
						e[k] = v
					}
				}
				set("id", id)
				set("type", t)
				set("serviceEndpoint", ep)
				out = append(out, e)
			}
		}
	}
	out = append(out, map[string]interface{}{"id": "s1", "type": "T", "serviceEndpoint": ok, "extra": map[string]interface{}{"deep": []interface{}{1.0}}})
	return out
}

func c18JSONOps() []interface{} {
	paths := []interface{}{"/x", "/x/0", "/x/-", "/x/-1", "/x/9", "/x/y", "/publicKey", "/publicKey/0", "/publicKey/0/id", "/service", "/service/0/id", "/publicKeyX", "/services", "", "/", "/a~1b", "/x~0", absent{}, 5.0, nil, "x", "/publicKey/-", "x/service", "x/publicKey", "service", "publicKey/0", "x/service/0/id", "~/x"}
	froms := []interface{}{"/x", "/x/0", "/publicKey", "/publicKey/0", "/service/0", "/service", "", "/nope", absent{}, 5.0, "/x/-", "/x/-1", "x/service", "y/publicKey/0"}
	values := []interface{}{absent{}, nil, "v", 1.0, []interface{}{1.0, 2.0}, map[string]interface{}{"k": []interface{}{}}}
	var out []interface{}
	mk := func(op string, path, from, value interface{}) {
		m := map[string]interface{}{"op": op}
		if _, a := path.(absent); !a {
			m["path"] = path
		}
		if _, a := from.(absent); !a {
			m["from"] = from
		}
		if _, a := value.(absent); !a {
			m["value"] = value
		}
		out = append(out, m)
	}
	for _, p := range paths {
		for _, v := range values {
			mk("add", p, absent{}, v)
			mk("replace", p, absent{}, v)
			mk("test", p, absent{}, v)
		}
		mk("remove", p, absent{}, absent{})
		for _, f := range froms {
			mk("move", p, f, absent{})
			mk("copy", p, f, absent{})
		}
	}
	out = append(out, map[string]interface{}{"op": "frob", "path": "/x"}, map[string]interface{}{"path": "/x"}, map[string]interface{}{"op": 5.0, "path": "/x"},
		map[string]interface{}{"op": "add", "path": "/x", "value": 1.0, "from": "/publicKey"}, "not-an-object", nil, []interface{}{}, map[string]interface{}{"op": "ADD", "path": "/x", "value": 1.0})
	return out
}

func c18Docs() []doc.Doc {
	k1 := fx.KeyEntry("k1", fx.NewKey(fx.Ed25519, "c18/d"), []interface{}{"authentication"})
	s1 := fx.ServiceEntry("s1", "https://example.com/1")
	secs := func(extra map[string]interface{}) doc.Doc {
		d := doc.Doc{"publicKey": []interface{}{doc.Clone(k1)}, "service": []interface{}{doc.Clone(s1)}}
		for k, v := range extra {
			d[k] = v
		}
		return d
	}
	return []doc.Doc{
		{}, {"x": 1.0}, {"x": []interface{}{1.0, 2.0}}, {"x": map[string]interface{}{"y": []interface{}{}}}, {"x": nil}, {"x": "s"}, {"x": []interface{}{}},
		secs(nil), secs(map[string]interface{}{"x": []interface{}{1.0, 2.0}}), secs(map[string]interface{}{"x": map[string]interface{}{"y": 1.0}, "a/b": 2.0, "x~": 3.0}),
		secs(map[string]interface{}{"alsoKnownAs": []interface{}{"https://a.example"}, "x": []interface{}{map[string]interface{}{"z": nil}}}),
		{"publicKey": nil, "service": []interface{}{}, "x": 0.0},
		// states an accepted ietf-json-patch can leave behind (only /publicKey and /service are protected): alsoKnownAs holding
		// strings that are no URIs, non-strings, or no list at all
		secs(map[string]interface{}{"alsoKnownAs": []interface{}{"%zz", ":foo", "http://[::1", "https://a.example"}}),
		secs(map[string]interface{}{"alsoKnownAs": []interface{}{1.0, nil, map[string]interface{}{"x": 1.0}, "https://a.example"}}),
		{"alsoKnownAs": 5.0}, {"alsoKnownAs": map[string]interface{}{"a": 1.0}}, {"alsoKnownAs": nil}, {"alsoKnownAs": "https://a.example"},
	}
}

func c18(r *hx.Run) {
	fx.Quiet()
	r.Rule = "(1) validator: the full product of key-entry variants (12 ids x 9 types x 14 purpose sets x 10 key-material shapes; every subset of {publicKeyJwk, publicKeyBase58, publicKeyMultibase} for every type), service variants (9 ids x 6 types x 17 endpoint shapes), list-level variants (duplicates, pairs; the same id twice for every ordered pair of accepted key / service shapes, adjacent and separated, in add and replace), replace documents built from them, every length 1..600 of key ids, service ids and service types, every patch action disabled in turn, and JSON-patch operation lists over all six RFC 6902 operations x 22 paths x 12 from values x 6 values (thorough: all ordered pairs) are validated by the real ValidateDelta: accepted => the statement's structural predicate; (2) every accepted delta is applied by the real composer to 18 small documents (incl. alsoKnownAs states that an accepted JSON patch can leave behind: non-URI strings, non-strings, no list): document or error, never a panic or a hang, and an accepted JSON patch leaves the key and service sections unchanged. Non-trivial: distinct accepted deltas and distinct deltas rejected by a rule."
	ver := fx.NewVersion(fx.DefaultProtocol(), nil)
	docs := c18Docs()
	uc := fx.Commit(fx.NewKey(fx.Ed25519, "c18/uc"), fx.SHA256)
	validate := func(caseID string, p map[string]interface{}) (accepted bool) {
		var pp patch.Patch
		if err := json.Unmarshal(mustJSON(p), &pp); err != nil {
			return false
		}
		var err error
		func() {
			defer func() {
				if pn := recover(); pn != nil {
					err = fmt.Errorf("panic: %v", pn)
					r.Violation("panic:ValidateDelta", caseID, fmt.Sprintf("ValidateDelta panicked on %s: %v", hx.Trunc(string(mustJSON(p)), 300), pn), map[string]interface{}{"patch": p})
				}
			}()
			err = ver.Parser.ValidateDelta(&model.DeltaModel{UpdateCommitment: uc, Patches: []patch.Patch{pp}})
		}()
		r.Eval()
		r.Trans(1)
		return err == nil
	}
	pool := hx.NewPool("C18", 16)
	defer pool.Close()
	applyAll := func(caseID string, p map[string]interface{}) {
		isJSON := p["action"] == "ietf-json-patch"
		for di, d := range docs {
			raw, fatal := pool.Exec(mustJSON(c18Req{Patch: p, Doc: d}))
			r.Eval()
			r.Trace(1)
			if fatal != "" {
				r.Violation("fatal:"+fatal+":ApplyPatches:"+c18FatalClass(p), caseID,
					fmt.Sprintf("accepted delta %s applied to document %d (%s) killed the process: %s", hx.Trunc(string(mustJSON(p)), 300), di, hx.Trunc(string(mustJSON(d)), 120), fatal),
					map[string]interface{}{"patch": p, "document": d})
				continue
			}
			var resp c18Resp
			if err := json.Unmarshal(raw, &resp); err != nil {
				panic(fmt.Sprintf("bad worker response %q: %v", raw, err))
			}
			if resp.Panic != "" {
				r.Violation("panic:ApplyPatches:"+c18PanicClass(p, resp.Panic), caseID,
					fmt.Sprintf("accepted delta %s applied to document %d (%s) panicked: %v", hx.Trunc(string(mustJSON(p)), 300), di, hx.Trunc(string(mustJSON(d)), 120), resp.Panic),
					map[string]interface{}{"patch": p, "document": d})
			}
			if isJSON && len(resp.Changed) > 0 {
				r.Violation("json-patch-changes-section:"+c18OpClass(p), caseID,
					fmt.Sprintf("accepted JSON patch %s changed document %d: %s", hx.Trunc(string(mustJSON(p)), 300), di, hx.Trunc(strings.Join(resp.Changed, "; "), 300)),
					map[string]interface{}{"patch": p, "document": d})
			}
		}
	}
	check := func(family string, idx int, p map[string]interface{}) {
		caseID := fmt.Sprintf("%s|%d", family, idx)
		if !r.Want(caseID) {
			return
		}
		acc := validate(caseID, p)
		why := refPatchOK(p)
		r.Outcome(fmt.Sprintf("%s accepted=%v rule-ok=%v", family, acc, why == ""))
		if acc {
			r.Nontrivial("acc|" + string(mustJSON(p)))
			if why != "" {
				r.Violation("accepted-against-rule:"+why, caseID, fmt.Sprintf("validation accepted %s although: %s", hx.Trunc(string(mustJSON(p)), 400), why), map[string]interface{}{"patch": p})
			}
			applyAll(caseID, p)
		} else if why != "" {
			r.Nontrivial("rej|" + string(mustJSON(p)))
		}
	}
	good := func(id string) map[string]interface{} {
		return fx.KeyEntry(id, fx.NewKey(fx.P256, "c18/g"), []interface{}{"authentication"})
	}
	// ---- keys
	keyVars := c18KeyVariants()
	hx.ParallelFor(len(keyVars), func(i int) {
		check("add-keys", i, map[string]interface{}{"action": "add-public-keys", "publicKeys": []interface{}{keyVars[i]}})
	})
	r.State()
	listLevel := []interface{}{[]interface{}{good("k1"), good("k1")}, []interface{}{good("k1"), good("k2")}, []interface{}{good("k1"), good("k2"), good("k1")}, []interface{}{good("k1"), "str"}, []interface{}{},
		"not-a-list", nil, []interface{}{good("k1"), map[string]interface{}{}}, []interface{}{nil}, []interface{}{[]interface{}{good("k1")}}}
	for i, l := range listLevel {
		check("add-keys-list", i, map[string]interface{}{"action": "add-public-keys", "publicKeys": l})
	}
	// ---- same id twice in one list, for every ordered pair of accepted entry shapes (type x key-material members)
	var keyReps []map[string]interface{}
	{
		seenShape := map[string]bool{}
		for i, kv := range keyVars {
			m, ok := kv.(map[string]interface{})
			if !ok {
				continue
			}
			var members []string
			for k := range m {
				if k != "id" && k != "purposes" {
					members = append(members, k)
				}
			}
			sort.Strings(members)
			shape := fmt.Sprint(m["type"], members)
			if seenShape[shape] {
				continue
			}
			single := map[string]interface{}{"action": "add-public-keys", "publicKeys": []interface{}{kv}}
			if refPatchOK(single) != "" || !validate(fmt.Sprintf("keyrep|%d", i), single) {
				continue
			}
			seenShape[shape] = true
			keyReps = append(keyReps, m)
		}
	}
	withID := func(m map[string]interface{}, id string) map[string]interface{} {
		c := map[string]interface{}{}
		for k, v := range m {
			c[k] = v
		}
		c["id"] = id
		return c
	}
	type pairJob struct {
		fam string
		idx int
		p   map[string]interface{}
	}
	var dupJobs []pairJob
	for i, a := range keyReps {
		for j, b := range keyReps {
			same := []interface{}{withID(a, "dup-1"), withID(b, "dup-1")}
			three := []interface{}{withID(a, "dup-1"), good("other"), withID(b, "dup-1")}
			diff := []interface{}{withID(a, "dup-1"), withID(b, "dup-2")}
			n := (i*len(keyReps) + j) * 4
			dupJobs = append(dupJobs,
				pairJob{"dup-key-add", n, map[string]interface{}{"action": "add-public-keys", "publicKeys": same}},
				pairJob{"dup-key-add", n + 1, map[string]interface{}{"action": "add-public-keys", "publicKeys": three}},
				pairJob{"dup-key-add", n + 2, map[string]interface{}{"action": "add-public-keys", "publicKeys": diff}},
				pairJob{"dup-key-replace", n, map[string]interface{}{"action": "replace", "document": map[string]interface{}{"publicKeys": same}}},
				pairJob{"dup-key-replace", n + 1, map[string]interface{}{"action": "replace", "document": map[string]interface{}{"publicKeys": three, "services": []interface{}{fx.ServiceEntry("s1", "https://example.com/1")}}}})
		}
	}
	hx.ParallelFor(len(dupJobs), func(i int) { check(dupJobs[i].fam, dupJobs[i].idx, dupJobs[i].p) })
	r.Extra["accepted_key_shapes"] = len(keyReps)
	if len(keyReps) < 8 {
		panic(fmt.Sprintf("vacuity: only %d accepted key shapes", len(keyReps)))
	}
	// ---- every printable ASCII character outside the URL-safe set inside an otherwise valid id
	for c := 0x20; c < 0x7f; c++ {
		ch := string(rune(c))
		if c18IDRe.MatchString(ch) {
			continue
		}
		id := "k" + ch + "1"
		k := good("x")
		k["id"] = id
		sv := fx.ServiceEntry("x", "https://example.com/x")
		sv["id"] = id
		check("id-char-key", c, map[string]interface{}{"action": "add-public-keys", "publicKeys": []interface{}{k}})
		check("id-char-service", c, map[string]interface{}{"action": "add-services", "services": []interface{}{sv}})
		check("id-char-replace", c, map[string]interface{}{"action": "replace", "document": map[string]interface{}{"publicKeys": []interface{}{k}, "services": []interface{}{sv}}})
	}
	// ---- services
	svcVars := c18ServiceVariants()
	hx.ParallelFor(len(svcVars), func(i int) {
		check("add-services", i, map[string]interface{}{"action": "add-services", "services": []interface{}{svcVars[i]}})
	})
	r.State()
	gs := func(id string) map[string]interface{} { return fx.ServiceEntry(id, "https://example.com/"+id) }
	for i, l := range []interface{}{[]interface{}{gs("s1"), gs("s1")}, []interface{}{gs("s1"), gs("s2")}, []interface{}{gs("s1"), 5.0}, []interface{}{}, "x", nil, []interface{}{gs("s1"), map[string]interface{}{}}} {
		check("add-services-list", i, map[string]interface{}{"action": "add-services", "services": l})
	}
	{ // same service id twice, for every ordered pair of accepted service shapes
		var svcReps []map[string]interface{}
		seenShape := map[string]bool{}
		for i, sv := range svcVars {
			m, ok := sv.(map[string]interface{})
			if !ok {
				continue
			}
			shape := fmt.Sprintf("%v|%T|%s", m["type"], m["serviceEndpoint"], hx.Trunc(string(mustJSON(m["serviceEndpoint"])), 40))
			single := map[string]interface{}{"action": "add-services", "services": []interface{}{sv}}
			if seenShape[shape] || refPatchOK(single) != "" || !validate(fmt.Sprintf("svcrep|%d", i), single) {
				continue
			}
			seenShape[shape] = true
			svcReps = append(svcReps, m)
		}
		var jobs []pairJob
		for i, a := range svcReps {
			for j, b := range svcReps {
				same := []interface{}{withID(a, "dup-1"), withID(b, "dup-1")}
				three := []interface{}{withID(a, "dup-1"), gs("other"), withID(b, "dup-1")}
				n := (i*len(svcReps) + j) * 2
				jobs = append(jobs,
					pairJob{"dup-svc-add", n, map[string]interface{}{"action": "add-services", "services": same}},
					pairJob{"dup-svc-add", n + 1, map[string]interface{}{"action": "add-services", "services": three}},
					pairJob{"dup-svc-replace", n, map[string]interface{}{"action": "replace", "document": map[string]interface{}{"services": same}}},
					pairJob{"dup-svc-replace", n + 1, map[string]interface{}{"action": "replace", "document": map[string]interface{}{"publicKeys": []interface{}{good("k1")}, "services": three}}})
			}
		}
		hx.ParallelFor(len(jobs), func(i int) { check(jobs[i].fam, jobs[i].idx, jobs[i].p) })
		r.Extra["accepted_service_shapes"] = len(svcReps)
		if len(svcReps) < 4 {
			panic(fmt.Sprintf("vacuity: only %d accepted service shapes", len(svcReps)))
		}
	}
	// ---- replace: reduced variants (every 7th key variant, every 5th service variant) singly and paired with a good entry
	var rep []map[string]interface{}
	for i := 0; i < len(keyVars); i += 7 {
		rep = append(rep, map[string]interface{}{"action": "replace", "document": map[string]interface{}{"publicKeys": []interface{}{keyVars[i]}, "services": []interface{}{gs("s1")}}})
	}
	for i := 0; i < len(svcVars); i += 5 {
		rep = append(rep, map[string]interface{}{"action": "replace", "document": map[string]interface{}{"publicKeys": []interface{}{good("k1")}, "services": []interface{}{svcVars[i]}}})
		rep = append(rep, map[string]interface{}{"action": "replace", "document": map[string]interface{}{"services": []interface{}{gs("s0"), svcVars[i]}}})
	}
	rep = append(rep, map[string]interface{}{"action": "replace", "document": map[string]interface{}{}}, map[string]interface{}{"action": "replace", "document": map[string]interface{}{"other": 1.0}},
		map[string]interface{}{"action": "replace", "document": nil}, map[string]interface{}{"action": "replace", "document": []interface{}{}}, map[string]interface{}{"action": "replace"},
		map[string]interface{}{"action": "replace", "document": map[string]interface{}{"publicKeys": []interface{}{good("k1"), good("k1")}}},
		map[string]interface{}{"action": "replace", "document": map[string]interface{}{"publicKeys": "x", "services": 5.0}})
	hx.ParallelFor(len(rep), func(i int) { check("replace", i, rep[i]) })
	r.State()
	// ---- remove / aliases (shape robustness; no structural rule in the statement)
	misc := []map[string]interface{}{}
	for _, ids := range []interface{}{[]interface{}{"k1"}, []interface{}{}, []interface{}{"k1", "k1"}, []interface{}{5.0}, "k1", nil, []interface{}{strings.Repeat("k", 51)}, []interface{}{"bad id"}, []interface{}{nil, "k1"}} {
		misc = append(misc, map[string]interface{}{"action": "remove-public-keys", "ids": ids}, map[string]interface{}{"action": "remove-services", "ids": ids})
	}
	for _, uris := range []interface{}{[]interface{}{"https://a.example"}, []interface{}{}, []interface{}{"https://a.example", "https://a.example"}, []interface{}{"%zz"}, []interface{}{5.0}, "x", nil, []interface{}{""}, []interface{}{"a b"}} {
		misc = append(misc, map[string]interface{}{"action": "add-also-known-as", "uris": uris}, map[string]interface{}{"action": "remove-also-known-as", "uris": uris})
	}
	misc = append(misc, map[string]interface{}{"action": "nope"}, map[string]interface{}{"action": 5.0}, map[string]interface{}{}, map[string]interface{}{"action": "add-public-keys"}, map[string]interface{}{"action": "ietf-json-patch", "patches": "x"},
		map[string]interface{}{"action": "ietf-json-patch", "patches": []interface{}{}}, map[string]interface{}{"action": "ietf-json-patch"})
	for i, m := range misc {
		check("misc", i, m)
	}
	// ---- every length 1..600 of a key id, a service id and a service type (limits 50 / 50 / 30), in add and in replace
	hx.ParallelFor(600, func(i int) {
		n := i + 1
		id := strings.Repeat("k", n)
		check("len-key-id", n, map[string]interface{}{"action": "add-public-keys", "publicKeys": []interface{}{good(id)}})
		check("len-service-id", n, map[string]interface{}{"action": "add-services", "services": []interface{}{gs(id)}})
		st := gs("s1")
		st["type"] = strings.Repeat("T", n)
		check("len-service-type", n, map[string]interface{}{"action": "add-services", "services": []interface{}{st}})
		check("len-replace", n, map[string]interface{}{"action": "replace", "document": map[string]interface{}{"publicKeys": []interface{}{good(id)}, "services": []interface{}{st}}})
	})
	r.State()
	// ---- disabled actions
	for _, a := range fx.AllPatches {
		p := fx.DefaultProtocol()
		var en []string
		for _, x := range p.Patches {
			if x != a {
				en = append(en, x)
			}
		}
		p.Patches = en
		v2 := fx.NewVersion(p, nil)
		samples := map[string]map[string]interface{}{
			"replace": {"action": "replace", "document": map[string]interface{}{"services": []interface{}{gs("s1")}}}, "add-public-keys": {"action": "add-public-keys", "publicKeys": []interface{}{good("k1")}},
			"remove-public-keys": {"action": "remove-public-keys", "ids": []interface{}{"k1"}}, "add-services": {"action": "add-services", "services": []interface{}{gs("s1")}},
			"remove-services": {"action": "remove-services", "ids": []interface{}{"s1"}}, "ietf-json-patch": {"action": "ietf-json-patch", "patches": []interface{}{fx.JOp("add", "/x", 1.0)}},
			"add-also-known-as": {"action": "add-also-known-as", "uris": []interface{}{"https://a.example"}}, "remove-also-known-as": {"action": "remove-also-known-as", "uris": []interface{}{"https://a.example"}},
		}
		for b, s := range samples {
			caseID := fmt.Sprintf("disabled|%s|%s", a, b)
			if !r.Want(caseID) {
				continue
			}
			var pp patch.Patch
			_ = json.Unmarshal(mustJSON(s), &pp)
			err := v2.Parser.ValidateDelta(&model.DeltaModel{UpdateCommitment: uc, Patches: []patch.Patch{pp}})
			r.Eval()
			r.Nontrivial(caseID)
			if (err == nil) != (a != b) {
				r.Violation(fmt.Sprintf("enabled-actions:%s:accepted=%v", b, err == nil), caseID, fmt.Sprintf("with %s disabled, a %s patch: accepted=%v (%v)", a, b, err == nil, err), nil)
			}
		}
	}
	r.State()
	// ---- JSON patch operation lists
	ops := c18JSONOps()
	hx.ParallelFor(len(ops), func(i int) {
		check("json1", i, map[string]interface{}{"action": "ietf-json-patch", "patches": []interface{}{ops[i]}})
	})
	r.State()
	r.Extra["json_ops"] = len(ops)
	// pairs: quick = pairs of the operations accepted singly that are in a 'core' subset; thorough = all ordered pairs
	var core []int
	for i, o := range ops {
		m, ok := o.(map[string]interface{})
		if !ok {
			continue
		}
		if r.Tier == "thorough" {
			core = append(core, i)
			continue
		}
		p, _ := m["path"].(string)
		f, hasF := m["from"].(string)
		v, hasV := m["value"]
		_, vIsArr := v.([]interface{})
		if (p == "/x" || p == "/x/0" || p == "/x/-" || p == "/publicKeyX") && (!hasF || f == "/x" || f == "/publicKey" || f == "/x/0") && (!hasV || vIsArr || v == nil) {
			core = append(core, i)
		}
	}
	type pr struct{ a, b int }
	var pairs []pr
	for _, a := range core {
		for _, b := range core {
			pairs = append(pairs, pr{a, b})
		}
	}
	r.Extra["json_op_pairs"] = len(pairs)
	hx.ParallelFor(len(pairs), func(i int) {
		if r.OverBudget() {
			return
		}
		check("json2", pairs[i].a*len(ops)+pairs[i].b, map[string]interface{}{"action": "ietf-json-patch", "patches": []interface{}{ops[pairs[i].a], ops[pairs[i].b]}})
	})
	r.State()
	r.Sample(map[string]interface{}{"key_variants": len(keyVars), "service_variants": len(svcVars), "json_ops": len(ops), "documents": len(docs)})
	r.Sample(keyVars[len(keyVars)/3])
	r.Sample(ops[len(ops)/2])
	r.Assumptions = append(r.Assumptions,
		"the structural predicate contains only the statement's rules; shapes it does not mention (empty purposes list, malformed JWK content, alias URIs, extra members) are not asserted",
		"'valid URI' uses net/url.ParseRequestURI like the code (shared base): the rule decided is which endpoint strings are checked, not URI grammar",
		"every application runs inside a worker subprocess (one request at a time per worker, recover() per request, 60 s timeout, 64 MB stack limit): a recovered panic, a fatal runtime exit (stack overflow, out of memory) or a hang is attributed to the request in flight and reported as a violation")
}

func c18OpClass(p map[string]interface{}) string {
	l, _ := p["patches"].([]interface{})
	var cs []string
	for _, o := range l {
		if m, ok := o.(map[string]interface{}); ok {
			op, _ := m["op"].(string)
			c := op
			if f, ok := m["from"].(string); ok && inSection(f) {
				c += "-from-section"
			}
			if pth, ok := m["path"].(string); ok && inSection(pth) {
				c += "-path-section"
			}
			cs = append(cs, c)
		}
	}
	return strings.Join(cs, "+")
}

func c18PanicClass(p map[string]interface{}, msg string) string {
	cls := fmt.Sprint(p["action"])
	if cls == "ietf-json-patch" {
		l, _ := p["patches"].([]interface{})
		var cs []string
		for _, o := range l {
			if m, ok := o.(map[string]interface{}); ok {
				op, _ := m["op"].(string)
				_, hasV := m["value"]
				pth, _ := m["path"].(string)
				idx := ""
				if strings.HasSuffix(pth, "/-1") {
					idx = ":index-1"
				}
				cs = append(cs, fmt.Sprintf("%s:value=%v%s", op, hasV, idx))
			}
		}
		cls += ":" + strings.Join(cs, "+")
	}
	switch {
	case strings.Contains(msg, "index out of range"):
		cls += ":index-out-of-range"
	case strings.Contains(msg, "nil pointer"):
		cls += ":nil-pointer"
	case strings.Contains(msg, "slice bounds"):
		cls += ":slice-bounds"
	}
	return cls
}

// c18FatalClass names the root-cause class of a fatal application outcome: evanphx/json-patch v4.1.0 implements
// 'copy' by aliasing the source node, so any JSON patch containing a copy operation can build a cyclic document
// that overflows the stack when it is serialized. Anything else keeps its exact operation list as class.
func c18FatalClass(p map[string]interface{}) string {
	l, _ := p["patches"].([]interface{})
	for _, o := range l {
		if m, ok := o.(map[string]interface{}); ok && m["op"] == "copy" {
			return "json-patch-containing-copy-op"
		}
	}
	return c18OpClass(p)
}
