package props

import (
	"encoding/json"
	"fmt"
	"os"
	"os/exec"
	"sort"
	"strings"
	"sync"
	stdatomic "sync/atomic"
	"time"

	"github.com/trustbloc/sidetree-core-go/pkg/api/operation"
	"github.com/trustbloc/sidetree-core-go/pkg/api/protocol"
	"github.com/trustbloc/sidetree-core-go/pkg/api/txn"
	"github.com/trustbloc/sidetree-core-go/pkg/batch"
	"github.com/trustbloc/sidetree-core-go/pkg/batch/cutter"
	"github.com/trustbloc/sidetree-core-go/pkg/batch/opqueue"
	"github.com/trustbloc/sidetree-core-go/pkg/versions/1_0/operationparser"

	"verif/mc/explore"
	"verif/mc/fx"
	"verif/mc/hx"
)

func init() {
	register("C16", c16)
	Workers["C16"] = c16Worker
	RacePass["C16"] = c16RacePass
}

// c16RacePass runs the scenario thread bodies free (no scheduler) many times; meant for a binary built with -race:
// the race detector aborts the process (GORACE exitcode) on an unsynchronised access, which a cooperative scheduler
// cannot see. It also checks exactly-once after a fault-free drain. Supporting run, not the deciding step.
func c16RacePass() int {
	fx.Quiet()
	rc := 0
	for si, sc := range c16Scenarios {
		for it := 0; it < 150; it++ {
			n := newC16Node(false)
			var wg sync.WaitGroup
			var mu sync.Mutex
			accepted := map[string]string{}
			rnd := uint32(si*7919 + it*104729 + 1)
			next := func() uint32 { // xorshift, only used from the writer goroutine
				rnd ^= rnd << 13
				rnd ^= rnd >> 17
				rnd ^= rnd << 5
				return rnd
			}
			n.cas.FailW = func(int, []byte) bool { return next()%11 == 0 }
			n.anchor.choose = func() bool { return next()%7 == 0 }
			for ti, sub := range sc.Subs {
				ti, sub := ti, sub
				wg.Add(1)
				go func() {
					defer wg.Done()
					for k, e := range sub {
						uid := fmt.Sprintf("%s#%d.%d", e.Sym, ti, k)
						if err := n.addUID(e.Sym, uid, e.V); err == nil {
							mu.Lock()
							accepted[uid] = e.Sym
							mu.Unlock()
						}
					}
				}()
			}
			wg.Add(1)
			go func() {
				defer wg.Done()
				for t := 0; t < sc.Tick+2; t++ {
					n.writer.VerifStep(next()%2 == 0)
				}
			}()
			wg.Wait()
			n.cas.FailW, n.anchor.choose = nil, nil
			for i := 0; i < len(accepted)+3 && n.queue.Len() > 0; i++ {
				n.writer.VerifStep(true)
			}
			alpha := c16Alphabet()
			cnt := map[string]int{}
			for _, b := range c16Successful(n) {
				seen := map[string]bool{}
				for _, id := range b.ids {
					it := alpha[strings.SplitN(id, "#", 2)[0]]
					if it.exp || seen[it.suffix] {
						continue
					}
					seen[it.suffix] = true
					cnt[id]++
				}
			}
			for id, sym := range accepted {
				if alpha[sym].exp {
					continue
				}
				if cnt[id] != 1 {
					fmt.Printf("FREE-RUN scenario=%s iteration=%d operation %s anchored %d times\n", sc.Name, it, id, cnt[id])
					rc = 1
				}
			}
		}
	}
	return rc
}

// ---------------------------------------------------------------- reference model (DESIGN appendix A.2)

type qItem struct {
	uid    string // unique id of this queued instance
	sym    string // alphabet symbol, e.g. C1
	suffix string
	typ    operation.Type
	exp    bool
	early  bool // its anchoring window has not opened yet: the handler refuses the batch (it is not expired and must not be dropped)
	v      uint64
}

type qBatch struct {
	version  uint64
	ids      []string // uids handed to the handler
	refs     []string // type:suffix of included operations (sorted)
	count    int
	ok       bool
	anchored bool
}

type qModel struct {
	Q        []qItem
	Handled  []qBatch // every handler invocation
	Anchored []qBatch // successful anchor writes
	Expired  []string
	max      int
	failGet  int // set before a step: the k-th protocol-version lookup of the step fails (the batch goes back, nothing was handled)
}

func (m *qModel) add(it qItem) { m.Q = append(m.Q, it) }

// step models one writer iteration. failCAS / failAnchor are 1-based indexes of the failing CAS write / anchor
// write within this step (0 = none).
func (m *qModel) step(force bool, failCAS, failAnchor int) {
	casN, anchorN, getN := 0, 0, 0
	failGet := m.failGet
	m.failGet = 0
	process := func(k int) bool {
		getN++
		if getN == failGet {
			return false
		}
		b := m.Q[:k]
		// longest prefix with the version of the first element
		n := 0
		for n < len(b) && b[n].v == b[0].v {
			n++
		}
		b = b[:n]
		rec := qBatch{version: b[0].v}
		var included, deferred []qItem
		var expired []string
		seen := map[string]bool{}
		for _, it := range b {
			if it.early {
				// the handler refuses the whole batch (an operation that is not yet valid is not expired): it goes back to the queue
				rec.ids = nil
				for _, x := range b {
					rec.ids = append(rec.ids, x.uid)
				}
				m.Handled = append(m.Handled, rec)
				return false
			}
		}
		for _, it := range b {
			rec.ids = append(rec.ids, it.uid)
			switch {
			case it.exp:
				expired = append(expired, it.uid)
			case seen[it.suffix]:
				deferred = append(deferred, it)
			default:
				seen[it.suffix] = true
				included = append(included, it)
			}
		}
		nDeact, nUpd, nFull := 0, 0, 0
		for _, it := range included {
			rec.refs = append(rec.refs, string(it.typ)+":"+it.suffix)
			switch it.typ {
			case operation.TypeDeactivate:
				nDeact++
				nFull++
			case operation.TypeRecover:
				nFull++
			case operation.TypeUpdate:
				nUpd++
			}
		}
		sort.Strings(rec.refs)
		rec.count = len(included)
		writes := 0
		if nDeact != len(b) {
			writes += 2 // chunk, provisional index
			if nUpd > 0 {
				writes++
			}
		}
		if nFull > 0 {
			writes++
		}
		writes++ // core index
		for w := 0; w < writes; w++ {
			casN++
			if casN == failCAS {
				m.Handled = append(m.Handled, rec)
				return false
			}
		}
		rec.ok = true
		m.Handled = append(m.Handled, rec)
		anchorN++
		if anchorN == failAnchor {
			return false
		}
		m.Anchored = append(m.Anchored, rec)
		m.Expired = append(m.Expired, expired...)
		rest := append([]qItem{}, m.Q[n:]...)
		for _, d := range deferred {
			d.v = rec.version
			rest = append(rest, d)
		}
		m.Q = rest
		return true
	}
	for len(m.Q) >= m.max {
		if !process(m.max) {
			return
		}
	}
	if force && len(m.Q) > 0 {
		k := len(m.Q)
		if k > m.max {
			k = m.max
		}
		process(k)
	}
}

func (m *qModel) key() string {
	var sb strings.Builder
	for _, it := range m.Q {
		fmt.Fprintf(&sb, "%s@%d,", it.sym, it.v)
	}
	sb.WriteString("|")
	for _, b := range m.Anchored {
		fmt.Fprintf(&sb, "[%d:%s]", b.version, strings.Join(b.refs, "+"))
	}
	sb.WriteString("|")
	fmt.Fprintf(&sb, "exp=%d handled=%d", len(m.Expired), len(m.Handled))
	return sb.String()
}

// ---------------------------------------------------------------- real node

type c16Anchor struct {
	node   *c16Node
	mu     sync.Mutex
	n      int // anchor writes in the current step
	failAt int
	log    []qBatch
	choose func() bool // when set (concurrent mode) decides failure
}

func (a *c16Anchor) WriteAnchor(anchor string, _ []*protocol.AnchorDocument, refs []*operation.Reference, pv uint64) error {
	a.mu.Lock()
	defer a.mu.Unlock()
	a.n++
	if a.node != nil && a.node.casFailedInBatch {
		a.node.anchoredAfterCASFailure = append(a.node.anchoredAfterCASFailure, anchor)
	}
	if (a.choose != nil && a.choose()) || (a.failAt != 0 && a.n == a.failAt) {
		return fmt.Errorf("injected anchor write failure")
	}
	b := qBatch{version: pv, ok: true}
	fmt.Sscanf(anchor, "%d.", &b.count)
	for _, r := range refs {
		b.refs = append(b.refs, string(r.Type)+":"+r.UniqueSuffix)
	}
	sort.Strings(b.refs)
	a.log = append(a.log, b)
	if a.node != nil && len(a.node.handled) > 0 {
		a.node.handled[len(a.node.handled)-1].anchored = true
	}
	return nil
}

func (a *c16Anchor) Read(int) (bool, *txn.SidetreeTxn) { return false, nil }

type c16Handler struct {
	inner   protocol.OperationHandler
	version uint64
	node    *c16Node
}

func uidOf(op *operation.QueuedOperation) string {
	for _, p := range op.Properties {
		if p.Key == "uid" {
			return fmt.Sprint(p.Value)
		}
	}
	return "?"
}

func (h *c16Handler) PrepareTxnFiles(ops []*operation.QueuedOperation) (*protocol.AnchoringInfo, error) {
	rec := qBatch{version: h.version}
	for _, op := range ops {
		rec.ids = append(rec.ids, uidOf(op))
	}
	h.node.casFailedInBatch = false
	info, err := h.inner.PrepareTxnFiles(ops)
	if err == nil {
		rec.ok = true
		for _, e := range info.ExpiredOperations {
			h.node.expired = append(h.node.expired, uidOf(e))
		}
	}
	h.node.handled = append(h.node.handled, rec)
	return info, err
}

type c16Ctx struct {
	pc     protocol.Client
	anchor batch.AnchorWriter
	queue  cutter.OperationQueue
}

func (c *c16Ctx) Protocol() protocol.Client             { return c.pc }
func (c *c16Ctx) Anchor() batch.AnchorWriter            { return c.anchor }
func (c *c16Ctx) OperationQueue() cutter.OperationQueue { return c.queue }

type c16Node struct {
	cas     *fx.MemCAS
	anchor  *c16Anchor
	queue   *opqueue.MemQueue
	proxy   *queueProxy
	writer  *batch.Writer
	handled []qBatch
	expired []string
	casN    int
	failCAS int
	getN    int
	failGet int
	seq     int
	verOf   map[string]uint64
	// a CAS write failed while the current batch was being prepared (reset at every handler invocation)
	casFailedInBatch        bool
	anchoredAfterCASFailure []string
}

var c16DIDs []*fx.DIDOps
var c16Once sync.Once

func c16Alphabet() map[string]qItem {
	c16Once.Do(func() {
		c16DIDs = []*fx.DIDOps{fx.NewDIDOps(fx.Ed25519, fx.SHA256, "q1"), fx.NewDIDOps(fx.Ed25519, fx.SHA256, "q2"), fx.NewDIDOps(fx.Ed25519, fx.SHA256, "q3")}
	})
	m := map[string]qItem{}
	for _, s := range []struct {
		sym string
		did int
		key string
	}{{"C1", 0, "C"}, {"U1", 0, "U"}, {"C2", 1, "C"}, {"D3", 2, "D"}, {"Ux2", 1, "Ux"}, {"R3", 2, "R"}, {"Ue2", 1, "Ue"}} {
		m[s.sym] = qItem{sym: s.sym, suffix: c16DIDs[s.did].Suffix, typ: fx.TypeOf(s.key), exp: strings.HasSuffix(s.key, "x"), early: strings.HasSuffix(s.key, "e")}
	}
	return m
}

func c16Request(sym string) []byte {
	for _, s := range []struct {
		sym string
		did int
		key string
	}{{"C1", 0, "C"}, {"U1", 0, "U"}, {"C2", 1, "C"}, {"D3", 2, "D"}, {"Ux2", 1, "Ux"}, {"R3", 2, "R"}, {"Ue2", 1, "Ue"}} {
		if s.sym == sym {
			return c16DIDs[s.did].Req[s.key]
		}
	}
	panic("no request " + sym)
}

// c16Max is the protocol's MaxOperationCount used by the node under test and the reference (2 by default; the
// sequential search also runs with 3 so that a cut window can hold interleaved protocol versions).
var c16Max = 2

func newC16Node(useProxy bool) *c16Node {
	return newC16NodeT(useProxy, 24*time.Hour, 24*time.Hour)
}

// newC16NodeT builds the node with the given monitor interval and batch timeout (24 h each when the writer is stepped by hand).
func newC16NodeT(useProxy bool, monitor, timeout time.Duration) *c16Node {
	c16Alphabet()
	n := &c16Node{cas: fx.NewMemCAS(), anchor: &c16Anchor{}, queue: &opqueue.MemQueue{}, verOf: map[string]uint64{}}
	n.anchor.node = n
	n.cas.FailW = func(int, []byte) bool {
		n.casN++
		return n.failCAS != 0 && n.casN == n.failCAS
	}
	mk := func(genesis uint64) *fx.Version {
		p := fx.DefaultProtocol()
		p.GenesisTime = genesis
		p.MaxOperationCount = uint(c16Max)
		v := fx.NewVersion(p, &fx.VersionOpts{CAS: n.cas, ParserOpts: []operationparser.Option{operationparser.WithAnchorTimeValidator(expiryValidator{})}})
		v.Handler = &c16Handler{inner: v.Handler, version: genesis, node: n}
		return v
	}
	client := &c16Client{Client: fx.NewClient(mk(0), mk(10)), node: n}
	var q cutter.OperationQueue = n.queue
	if c16WrapQueue != nil {
		q = c16WrapQueue(q)
	}
	if useProxy {
		n.proxy = &queueProxy{inner: n.queue}
		q = n.proxy
	}
	w, err := batch.New("did:sidetree", &c16Ctx{pc: client, anchor: n.anchor, queue: q}, batch.WithBatchTimeout(timeout), batch.WithMonitorInterval(monitor))
	if err != nil {
		panic(err)
	}
	n.writer = w
	return n
}

// c16WrapQueue, when set, wraps the queue handed to the writer (used by the main-loop check to count queue polls).
var c16WrapQueue func(cutter.OperationQueue) cutter.OperationQueue

// lenCountingQueue counts Len calls: on an empty queue every pass of the writer's loop polls the length exactly once.
type lenCountingQueue struct {
	cutter.OperationQueue
	polls int64
}

func (q *lenCountingQueue) Len() uint {
	stdatomic.AddInt64(&q.polls, 1)
	return q.OperationQueue.Len()
}

// c16MainLoop runs the writer's own goroutine (Start: timers and the select loop that the stepped searches bypass). Real
// time is only used for safety statements that waiting longer can only confirm: with a batch timeout of 24 h no number of
// monitor ticks may cut an undersized batch. Whether a due cut happens within the polling horizon is reported as an
// outcome, never as a violation.
func c16MainLoop(r *hx.Run) {
	anchored := func(n *c16Node) []qBatch {
		n.anchor.mu.Lock()
		defer n.anchor.mu.Unlock()
		return append([]qBatch(nil), n.anchor.log...)
	}
	waitFor := func(n *c16Node, want int, horizon time.Duration) bool {
		deadline := time.Now().Add(horizon)
		for time.Now().Before(deadline) {
			if len(anchored(n)) >= want {
				return true
			}
			time.Sleep(2 * time.Millisecond)
		}
		return len(anchored(n)) >= want
	}
	saved := c16Max
	c16Max = 2
	defer func() { c16Max = saved }()
	var lq *lenCountingQueue
	c16WrapQueue = func(q cutter.OperationQueue) cutter.OperationQueue {
		lq = &lenCountingQueue{OperationQueue: q}
		return lq
	}
	defer func() { c16WrapQueue = nil }()
	// started waits until the loop has polled the (empty) queue twice: the second poll belongs to a pass after the start-up pass,
	// which force-cuts whatever it finds, so operations added from now on are only subject to monitor / timeout ticks
	started := func() bool {
		deadline := time.Now().Add(30 * time.Second)
		for time.Now().Before(deadline) {
			if stdatomic.LoadInt64(&lq.polls) >= 2 {
				return true
			}
			time.Sleep(time.Millisecond)
		}
		return false
	}
	if caseID := "mainloop|monitor-ticks-do-not-force"; r.Want(caseID) {
		n := newC16NodeT(false, 2*time.Millisecond, 24*time.Hour)
		n.writer.Start()
		if !started() {
			r.Outcome("mainloop: the writer loop did not poll the queue within 30 s (inconclusive)")
			n.writer.Stop()
			return
		}
		_, _ = n.add("C1", 0)
		time.Sleep(150 * time.Millisecond) // dozens of monitor ticks
		r.Eval()
		r.State()
		r.Nontrivial(caseID)
		if got := anchored(n); len(got) != 0 || n.queue.Len() != 1 {
			r.Violation("mainloop:undersized-batch-cut-without-timeout", caseID, fmt.Sprintf("one queued operation (maximum 2), batch timeout 24 h, monitor interval 2 ms: anchored %v, queue length %d", got, n.queue.Len()), nil)
		}
		_, _ = n.add("C2", 0) // the batch is full now: a monitor tick cuts it
		full := waitFor(n, 1, 20*time.Second)
		r.Outcome(fmt.Sprintf("mainloop: full batch cut by a monitor tick within the horizon=%v", full))
		if got := anchored(n); full && (len(got) != 1 || got[0].count != 2) {
			r.Violation("mainloop:batch-content", caseID, fmt.Sprintf("full batch anchored as %v", got), nil)
		}
		n.writer.Stop()
	}
	if caseID := "mainloop|version-boundary"; r.Want(caseID) {
		n := newC16NodeT(false, 2*time.Millisecond, 24*time.Hour)
		n.writer.Start()
		if !started() {
			r.Outcome("mainloop: the writer loop did not poll the queue within 30 s (inconclusive)")
			n.writer.Stop()
			return
		}
		_, _ = n.add("C1", 0)
		_, _ = n.add("C2", 10) // version boundary behind C1: C1 may be cut by a monitor tick, C2 (alone, undersized) may not
		time.Sleep(150 * time.Millisecond)
		r.Eval()
		r.State()
		r.Nontrivial(caseID)
		for _, b := range anchored(n) {
			if b.version != 0 || b.count != 1 {
				r.Violation("mainloop:undersized-batch-cut-without-timeout", caseID, fmt.Sprintf("batch %+v anchored: only the operation in front of the version boundary may be cut without a timeout", b), nil)
			}
		}
		n.writer.Stop()
	}
	if caseID := "mainloop|timeout-forces"; r.Want(caseID) {
		n := newC16NodeT(false, 24*time.Hour, 5*time.Millisecond)
		n.writer.Start()
		_ = started()
		_, _ = n.add("C1", 0)
		cut := waitFor(n, 1, 20*time.Second)
		r.Eval()
		r.State()
		r.Outcome(fmt.Sprintf("mainloop: undersized batch cut on batch timeout within the horizon=%v", cut))
		if got := anchored(n); cut && (got[0].count != 1 || got[0].version != 0) {
			r.Violation("mainloop:batch-content", caseID, fmt.Sprintf("timeout batch anchored as %v", got), nil)
		}
		n.writer.Stop()
		// a stopped writer's loop has ended: nothing is anchored afterwards and Add is refused
		before := len(anchored(n))
		if _, err := n.add("C2", 0); err == nil {
			r.Violation("mainloop:stopped-writer-accepts", caseID, "Add succeeded after Stop", nil)
		}
		time.Sleep(30 * time.Millisecond)
		if len(anchored(n)) != before {
			r.Violation("mainloop:anchors-after-stop", caseID, "a batch was anchored after Stop", nil)
		}
	}
}

func (n *c16Node) add(sym string, v uint64) (string, error) {
	n.seq++
	uid := fmt.Sprintf("%s#%d", sym, n.seq)
	return uid, n.addUID(sym, uid, v)
}

func (n *c16Node) addUID(sym, uid string, v uint64) error {
	it := c16Alphabet()[sym]
	op := &operation.QueuedOperation{Type: it.typ, OperationRequest: c16Request(sym), UniqueSuffix: it.suffix, Namespace: "did:sidetree",
		Properties: []operation.Property{{Key: "uid", Value: uid}}}
	return n.writer.Add(op, v)
}

func (n *c16Node) step(force bool, failCAS, failAnchor int) {
	n.casN, n.failCAS = 0, failCAS
	n.anchor.n, n.anchor.failAt = 0, failAnchor
	n.getN = 0
	n.writer.VerifStep(force)
	n.failCAS, n.anchor.failAt, n.failGet = 0, 0, 0
}

// c16Client is the node's protocol client; the writer's version lookups can be made to fail (once, by index within a step).
type c16Client struct {
	*fx.Client
	node *c16Node
}

func (c *c16Client) Get(t uint64) (protocol.Version, error) {
	c.node.getN++
	if c.node.failGet != 0 && c.node.getN == c.node.failGet {
		return nil, fmt.Errorf("injected protocol-version lookup failure #%d", c.node.getN)
	}
	return c.Client.Get(t)
}

func (n *c16Node) queueContent() []string {
	items, _ := n.queue.Peek(n.queue.Len())
	var out []string
	for _, it := range items {
		out = append(out, fmt.Sprintf("%s@%d", uidOf(&it.QueuedOperation), it.ProtocolVersion))
	}
	return out
}

// ---------------------------------------------------------------- sequential lock-step search

type c16Event struct {
	Kind       string // add | tick
	Sym        string
	V          uint64
	Force      bool
	FailCAS    int
	FailAnchor int
	FailGet    int // 1-based index of the writer's protocol-version lookup that fails in this step (0 = none)
}

func (e c16Event) String() string {
	if e.Kind == "add" {
		return fmt.Sprintf("add(%s,v%d)", e.Sym, e.V)
	}
	k := "monitor"
	if e.Force {
		k = "timeout"
	}
	f := ""
	if e.FailCAS > 0 {
		f = fmt.Sprintf(",failCAS#%d", e.FailCAS)
	}
	if e.FailAnchor > 0 {
		f = fmt.Sprintf(",failAnchor#%d", e.FailAnchor)
	}
	if e.FailGet > 0 {
		f = fmt.Sprintf(",failGet#%d", e.FailGet)
	}
	return "tick(" + k + f + ")"
}

func batchStr(bs []qBatch, withIDs bool) string {
	var sb strings.Builder
	for _, b := range bs {
		if withIDs {
			fmt.Fprintf(&sb, "[v%d ok=%v %s]", b.version, b.ok, strings.Join(b.ids, ","))
		} else {
			fmt.Fprintf(&sb, "[v%d n=%d %s]", b.version, b.count, strings.Join(b.refs, "+"))
		}
	}
	return sb.String()
}

// c16Replay runs the events on a fresh real node and the model in lock-step; returns the model and the first
// disagreement (class, detail).
func c16Replay(events []c16Event) (*qModel, string, string) {
	n := newC16Node(false)
	m := &qModel{max: c16Max}
	alpha := c16Alphabet()
	for i, e := range events {
		if e.Kind == "add" {
			uid, err := n.add(e.Sym, e.V)
			if err != nil {
				return m, "add-error", err.Error()
			}
			it := alpha[e.Sym]
			it.uid, it.v = uid, e.V
			m.add(it)
			n.verOf[uid] = e.V
		} else {
			n.failGet, m.failGet = e.FailGet, e.FailGet
			n.step(e.Force, e.FailCAS, e.FailAnchor)
			m.step(e.Force, e.FailCAS, e.FailAnchor)
		}
		var mq []string
		for _, it := range m.Q {
			mq = append(mq, fmt.Sprintf("%s@%d", it.uid, it.v))
		}
		if got := strings.Join(n.queueContent(), ","); got != strings.Join(mq, ",") {
			return m, "queue-content", fmt.Sprintf("after event %d (%s): queue is [%s], reference [%s]", i, e, got, strings.Join(mq, ","))
		}
		if got, want := batchStr(n.handled, true), batchStr(m.Handled, true); got != want {
			cls := "batch-cut"
			// direct invariants for a sharper class
			for _, b := range n.handled {
				if len(b.ids) > c16Max {
					cls = "batch-exceeds-max"
				}
				for _, id := range b.ids {
					if n.verOf[id] != b.version && !strings.Contains(want, id) {
						cls = "batch-version"
					}
				}
				vs := map[uint64]bool{}
				for _, id := range b.ids {
					vs[n.verOf[id]] = true
				}
				if len(vs) > 1 {
					cls = "batch-mixes-protocol-versions"
				}
			}
			return m, cls, fmt.Sprintf("after event %d (%s): handler invocations %s, reference %s", i, e, got, want)
		}
		if got, want := batchStr(n.anchor.log, false), batchStr(m.Anchored, false); got != want {
			return m, "anchored-batches", fmt.Sprintf("after event %d (%s): anchored %s, reference %s", i, e, got, want)
		}
		sort.Strings(n.expired)
		me := append([]string{}, m.Expired...)
		sort.Strings(me)
		// expired operations of failed anchor writes are reported by the handler but the batch returns to the queue
		_ = me
	}
	// conservation on the model (the implementation equals it)
	total := 0
	for _, e := range events {
		if e.Kind == "add" {
			total++
		}
	}
	anch := 0
	for _, b := range m.Anchored {
		anch += b.count
	}
	if anch+len(m.Q)+len(m.Expired) != total {
		panic("reference model violates conservation")
	}
	return m, "", ""
}

func c16Sequential(r *hx.Run) {
	c16SequentialMax(r, 2, 0)
	// MaxOperationCount = 3: windows such as [v0, v10, v0]; quick explores it to depth 4 (3 adds + 1 tick)
	c16Max = 3
	c16SequentialMax(r, 3, 4)
	c16Max = 2
}

// c16ParseEvents parses "add(C1,v0);tick(timeout,failCAS#2)" back into events (replay).
func c16ParseEvents(s string) []c16Event {
	var out []c16Event
	for _, tok := range strings.Split(s, ";") {
		switch {
		case strings.HasPrefix(tok, "add("):
			body := strings.TrimSuffix(strings.TrimPrefix(tok, "add("), ")")
			parts := strings.Split(body, ",v")
			var v uint64
			fmt.Sscan(parts[1], &v)
			out = append(out, c16Event{Kind: "add", Sym: parts[0], V: v})
		case strings.HasPrefix(tok, "tick("):
			body := strings.TrimSuffix(strings.TrimPrefix(tok, "tick("), ")")
			e := c16Event{Kind: "tick", Force: strings.HasPrefix(body, "timeout")}
			if i := strings.Index(body, "failCAS#"); i >= 0 {
				fmt.Sscan(body[i+8:], &e.FailCAS)
			}
			if i := strings.Index(body, "failAnchor#"); i >= 0 {
				fmt.Sscan(body[i+11:], &e.FailAnchor)
			}
			if i := strings.Index(body, "failGet#"); i >= 0 {
				fmt.Sscan(body[i+8:], &e.FailGet)
			}
			out = append(out, e)
		}
	}
	return out
}

func c16SequentialMax(r *hx.Run, max int, depthCap int) {
	if r.Only != "" {
		prefix := fmt.Sprintf("seq|max%d|", max)
		if strings.HasPrefix(r.Only, prefix) {
			h := c16ParseEvents(strings.TrimPrefix(r.Only, prefix))
			for i := 0; i < 2; i++ {
				_, class, detail := c16Replay(h)
				r.Eval()
				if class != "" {
					r.Violation("sequential:"+class, r.Only, fmt.Sprintf("events %v\n  %s", h, detail), nil)
				}
			}
		}
		return
	}
	depth, maxAdds := 5, 3
	syms := []string{"C1", "U1", "C2"}
	casFaults := []int{1, 2, 3}
	if r.Tier == "thorough" {
		depth, maxAdds = 6, 4
		syms = []string{"C1", "U1", "C2", "D3", "Ux2", "Ue2"}
		casFaults = []int{1, 2, 3, 4, 5, 7}
	}
	var adds []c16Event
	for _, sym := range syms {
		for _, v := range []uint64{0, 10} {
			adds = append(adds, c16Event{Kind: "add", Sym: sym, V: v})
		}
	}
	if r.Tier == "quick" {
		adds = append(adds, c16Event{Kind: "add", Sym: "Ux2", V: 10}, c16Event{Kind: "add", Sym: "D3", V: 0}, c16Event{Kind: "add", Sym: "Ue2", V: 0})
	}
	var ticks []c16Event
	for _, force := range []bool{false, true} {
		ticks = append(ticks, c16Event{Kind: "tick", Force: force})
		for _, k := range casFaults {
			ticks = append(ticks, c16Event{Kind: "tick", Force: force, FailCAS: k})
		}
		ticks = append(ticks, c16Event{Kind: "tick", Force: force, FailAnchor: 1})
		ticks = append(ticks, c16Event{Kind: "tick", Force: force, FailGet: 1})
		if r.Tier == "thorough" {
			ticks = append(ticks, c16Event{Kind: "tick", Force: force, FailGet: 2})
			ticks = append(ticks, c16Event{Kind: "tick", Force: force, FailAnchor: 2})
		}
	}
	if depthCap > 0 && r.Tier == "quick" {
		depth = depthCap
	}
	if max == 3 && r.Tier == "thorough" {
		depth = 5
	}
	r.Extra[fmt.Sprintf("sequential_depth_max%d", max)] = depth
	r.Extra["sequential_event_alphabet"] = len(adds) + len(ticks)
	type node struct {
		events []c16Event
		nAdds  int
	}
	seen := map[string]bool{}
	frontier := []node{{nil, 0}}
	m0, _, _ := c16Replay(nil)
	seen[m0.key()] = true
	var mu sync.Mutex
	for d := 0; d < depth && len(frontier) > 0; d++ {
		var next []node
		hx.ParallelFor(len(frontier), func(fi int) {
			if r.OverBudget() {
				return
			}
			st := frontier[fi]
			var evs []c16Event
			if st.nAdds < maxAdds {
				evs = append(evs, adds...)
			}
			if st.nAdds > 0 {
				evs = append(evs, ticks...)
			}
			for _, e := range evs {
				h := append(append([]c16Event{}, st.events...), e)
				var names []string
				for _, x := range h {
					names = append(names, x.String())
				}
				caseID := fmt.Sprintf("seq|max%d|", max) + strings.Join(names, ";")
				if !r.Want(caseID) {
					continue
				}
				m, class, detail := c16Replay(h)
				r.Eval()
				r.Trans(1)
				r.Trace(1)
				if class != "" {
					r.Violation("sequential:"+class, caseID, fmt.Sprintf("events %v\n  %s", names, detail), map[string]interface{}{"events": names})
					continue
				}
				k := m.key()
				mu.Lock()
				if !seen[k] {
					seen[k] = true
					na := st.nAdds
					if e.Kind == "add" {
						na++
					}
					next = append(next, node{h, na})
					if len(m.Anchored) > 0 {
						r.Nontrivial(k)
					}
				}
				mu.Unlock()
			}
		})
		sort.Slice(next, func(i, j int) bool { return fmt.Sprint(next[i].events) < fmt.Sprint(next[j].events) })
		frontier = next
		r.Extra[fmt.Sprintf("sequential_max%d_new_states_depth_%d", max, d+1)] = len(next)
	}
	r.States += int64(len(seen))
	r.Extra[fmt.Sprintf("sequential_states_max%d", max)] = len(seen)
	r.Sample(map[string]interface{}{"sequential_example": "add(C1,v0);add(U1,v0);tick(timeout,failCAS#2);tick(timeout)"})
}

// ---------------------------------------------------------------- concurrent schedule exploration

type qCall struct {
	thread int
	op     string
	arg    string
	ret    string
}

// queueProxy records every queue call with its result; the linearization order is recovered from the scheduler's
// lock-grant trace.
type queueProxy struct {
	inner   *opqueue.MemQueue
	pending map[int][]*qCall // per thread: calls whose lock has not been granted yet (in program order)
	calls   []*qCall
	cur     func() int
}

func (p *queueProxy) begin(op, arg string) *qCall {
	c := &qCall{thread: p.cur(), op: op, arg: arg}
	p.calls = append(p.calls, c)
	return c
}

func ids(items operation.QueuedOperationsAtTime) string {
	var out []string
	for _, it := range items {
		out = append(out, uidOf(&it.QueuedOperation))
	}
	return strings.Join(out, ",")
}

func (p *queueProxy) Add(op *operation.QueuedOperation, v uint64) (uint, error) {
	c := p.begin("Add", fmt.Sprintf("%s@%d", uidOf(op), v))
	n, err := p.inner.Add(op, v)
	c.ret = fmt.Sprint(n)
	return n, err
}

func (p *queueProxy) Peek(num uint) (operation.QueuedOperationsAtTime, error) {
	c := p.begin("Peek", fmt.Sprint(num))
	items, err := p.inner.Peek(num)
	c.ret = ids(items)
	return items, err
}

func (p *queueProxy) Len() uint {
	c := p.begin("Len", "")
	n := p.inner.Len()
	c.ret = fmt.Sprint(n)
	return n
}

func (p *queueProxy) Remove(num uint) (operation.QueuedOperationsAtTime, func() uint, func(error), error) {
	c := p.begin("Remove", fmt.Sprint(num))
	items, ack, nack, err := p.inner.Remove(num)
	c.ret = ids(items)
	removed := ids(items)
	return items, func() uint {
			c2 := p.begin("ack", removed)
			n := ack()
			c2.ret = fmt.Sprint(n)
			return n
		}, func(e error) {
			p.begin("nack", removed)
			nack(e)
		}, err
}

// c16Scenario describes the thread bodies of one concurrent harness.
type c16Scenario struct {
	Name string
	Subs [][]c16Event // submitter threads: adds
	Tick int          // maximum number of explorer-chosen writer ticks
}

var c16Scenarios = []c16Scenario{
	{"two-submitters-same-version", [][]c16Event{{{Kind: "add", Sym: "C1", V: 0}, {Kind: "add", Sym: "U1", V: 0}}, {{Kind: "add", Sym: "C2", V: 0}}}, 2},
	{"two-submitters-two-versions", [][]c16Event{{{Kind: "add", Sym: "C1", V: 0}, {Kind: "add", Sym: "D3", V: 10}}, {{Kind: "add", Sym: "C2", V: 10}}}, 2},
	{"colliding-suffix-and-expired", [][]c16Event{{{Kind: "add", Sym: "C1", V: 10}}, {{Kind: "add", Sym: "U1", V: 10}, {Kind: "add", Sym: "Ux2", V: 10}}}, 2},
	{"three-submitters", [][]c16Event{{{Kind: "add", Sym: "C1", V: 0}}, {{Kind: "add", Sym: "C2", V: 0}}, {{Kind: "add", Sym: "D3", V: 0}}}, 3},
}

type c16Finding struct {
	Class  string   `json:"class"`
	Detail string   `json:"detail"`
	Prefix []int    `json:"prefix"`
	Trace  []string `json:"trace"`
}

type c16WorkReq struct {
	Scenario int   `json:"scenario"`
	Prefix   []int `json:"prefix"`
	Bound    int   `json:"bound"`
	BudgetS  int   `json:"budget_s"`
}

type c16WorkResp struct {
	Executions int64          `json:"executions"`
	Points     int64          `json:"points"`
	MaxPoints  int            `json:"max_points"`
	Deadlocks  int64          `json:"deadlocks"`
	Partitions map[string]int `json:"partitions"`
	Findings   []c16Finding   `json:"findings"`
	Capped     bool           `json:"capped"`
}

// c16NewRun builds one controlled execution of a scenario.
func c16NewRun(sc c16Scenario, onFinding func(f c16Finding), partitions map[string]int) func() ([]string, []func(), func(*explore.Sched, error)) {
	return func() ([]string, []func(), func(*explore.Sched, error)) {
		n := newC16Node(true)
		n.proxy.cur = func() int {
			if s := explore.Active(); s != nil {
				return s.Current()
			}
			return -1
		}
		accepted := map[string]bool{}
		order := map[string]int{} // uid -> position in its submitter's program order
		alpha := c16Alphabet()
		items := map[string]qItem{}
		var names []string
		var bodies []func()
		for ti, sub := range sc.Subs {
			ti, sub := ti, sub
			names = append(names, fmt.Sprintf("S%d", ti))
			bodies = append(bodies, func() {
				for k, e := range sub {
					uid := fmt.Sprintf("%s#%d.%d", e.Sym, ti, k)
					it := alpha[e.Sym]
					it.uid, it.v = uid, e.V
					items[uid] = it
					n.verOf[uid] = e.V
					order[uid] = k
					if err := n.addUID(e.Sym, uid, e.V); err == nil {
						accepted[uid] = true
					}
				}
			})
		}
		names = append(names, "W")
		bodies = append(bodies, func() {
			s := explore.Active()
			n.cas.FailW = func(int, []byte) bool {
				if s.Choose(2, "cas-write-fails") == 1 {
					n.casFailedInBatch = true
					return true
				}
				return false
			}
			n.anchor.choose = func() bool { return s.Choose(2, "anchor-write-fails") == 1 }
			for t := 0; t < sc.Tick; t++ {
				switch s.Choose(3, "tick") {
				case 0:
					n.writer.VerifStep(true)
				case 1:
					n.writer.VerifStep(false)
				case 2:
					return
				}
			}
		})
		check := func(s *explore.Sched, err error) {
			report := func(class, detail string) {
				var prefix []int
				for _, p := range s.Points {
					prefix = append(prefix, p.Chosen)
				}
				onFinding(c16Finding{Class: class, Detail: detail, Prefix: prefix, Trace: s.Trace})
			}
			if err != nil {
				if _, ok := err.(explore.Deadlock); ok {
					report("deadlock", err.Error())
				} else {
					report("execution-error", err.Error())
				}
				return
			}
			// (1) linearize the queue calls at their lock grants and replay them on a plain list
			if detail := c16Linearize(n.proxy.calls, s.Trace, names); detail != "" {
				report("queue-not-linearizable", detail)
				return
			}
			// (2) batch invariants on every handler invocation
			for _, b := range n.handled {
				if len(b.ids) > c16Max {
					report("batch-exceeds-max", fmt.Sprintf("batch %v has more than %d operations", b.ids, c16Max))
				}
				vs := map[uint64]bool{}
				for _, id := range b.ids {
					vs[n.verOf[id]] = true
				}
				if len(vs) > 1 {
					report("batch-mixes-protocol-versions", fmt.Sprintf("batch %v handled under version %d mixes operations queued under different versions", b.ids, b.version))
				} else if len(b.ids) > 0 && n.verOf[b.ids[0]] != b.version {
					if !strings.Contains(b.ids[0], "#") {
						report("batch-version", "unknown operation id")
					}
				}
			}
			if len(n.anchoredAfterCASFailure) > 0 {
				report("anchored-after-cas-write-failure", fmt.Sprintf("a batch was anchored (%s) although a CAS write failed while its files were being written", n.anchoredAfterCASFailure[0]))
			}
			// (3) fault-free drain outside the scheduler, then exactly-once
			n.cas.FailW, n.anchor.choose = nil, nil
			for i := 0; i < len(accepted)+3 && n.queue.Len() > 0; i++ {
				n.writer.VerifStep(true)
			}
			if n.queue.Len() != 0 {
				report("drain-does-not-terminate", fmt.Sprintf("queue still holds %v after %d fault-free timeout ticks", n.queueContent(), len(accepted)+3))
				return
			}
			// successful batches = handler invocations whose anchor write succeeded; recover them from the anchor log by refs
			cnt := map[string]int{}
			okHandled := c16Successful(n)
			for _, b := range okHandled {
				seenSfx := map[string]bool{}
				for _, id := range b.ids {
					it := items[id]
					if it.exp || seenSfx[it.suffix] {
						continue // expired, or deferred to a later batch
					}
					seenSfx[it.suffix] = true
					cnt[id]++
				}
			}
			expired := map[string]bool{}
			for _, id := range n.expired {
				expired[id] = true
			}
			for id := range accepted {
				switch {
				case items[id].exp:
					if cnt[id] != 0 {
						report("expired-operation-anchored", id)
					}
				case cnt[id] == 0:
					report("operation-lost", fmt.Sprintf("accepted operation %s is in no successfully anchored batch after the drain (anchored: %s)", id, batchStr(okHandled, true)))
				case cnt[id] > 1:
					report("operation-duplicated", fmt.Sprintf("accepted operation %s is in %d successfully anchored batches (%s)", id, cnt[id], batchStr(okHandled, true)))
				}
			}
			// program order of one submitter is preserved among first inclusions of distinct suffixes
			var part []string
			for _, b := range okHandled {
				part = append(part, fmt.Sprintf("%d:%s", b.version, strings.Join(b.ids, ",")))
			}
			partitions[strings.Join(part, " | ")]++
		}
		return names, bodies, check
	}
}

// c16Successful returns the handler invocations whose batch was anchored.
func c16Successful(n *c16Node) []qBatch {
	var out []qBatch
	for _, h := range n.handled {
		if h.ok && h.anchored {
			out = append(out, h)
		}
	}
	return out
}

// c16Linearize orders the recorded queue calls by the lock grants in the schedule trace and replays them on a list.
func c16Linearize(calls []*qCall, trace []string, names []string) string {
	perThread := map[string][]*qCall{}
	for _, c := range calls {
		tn := "?"
		if c.thread >= 0 && c.thread < len(names) {
			tn = names[c.thread]
		}
		perThread[tn] = append(perThread[tn], c)
	}
	var lin []*qCall
	for _, t := range trace {
		i := strings.Index(t, ":")
		if i < 0 {
			continue
		}
		tn, op := t[:i], t[i+1:]
		if strings.HasPrefix(op, "Lock(") || strings.HasPrefix(op, "RLock(") {
			q := perThread[tn]
			if len(q) == 0 {
				return fmt.Sprintf("lock grant %q without a pending queue call", t)
			}
			lin = append(lin, q[0])
			perThread[tn] = q[1:]
		}
	}
	for tn, q := range perThread {
		if len(q) > 0 {
			return fmt.Sprintf("thread %s has %d queue calls that never acquired the queue lock (first: %s)", tn, len(q), q[0].op)
		}
	}
	var list []string
	removed := map[string][]string{}
	for i, c := range lin {
		want := ""
		switch c.op {
		case "Add":
			list = append(list, strings.SplitN(c.arg, "@", 2)[0])
			want = fmt.Sprint(len(list))
		case "Len":
			want = fmt.Sprint(len(list))
		case "Peek", "Remove":
			var k int
			fmt.Sscan(c.arg, &k)
			if k > len(list) {
				k = len(list)
			}
			want = strings.Join(list[:k], ",")
			if c.op == "Remove" {
				removed[want] = append([]string{}, list[:k]...)
				list = append([]string{}, list[k:]...)
			}
		case "ack":
			want = fmt.Sprint(len(list))
		case "nack":
			list = append(append([]string{}, removed[c.arg]...), list...)
			continue
		}
		if c.ret != want {
			return fmt.Sprintf("linearized call %d %s(%s) by thread %d returned %q, a FIFO list returns %q", i, c.op, c.arg, c.thread, c.ret, want)
		}
	}
	return ""
}

// c16Worker explores one subtree (worker subprocess).
func c16Worker(req []byte) []byte {
	fx.Quiet()
	var q c16WorkReq
	if err := json.Unmarshal(req, &q); err != nil {
		return mustJSON(c16WorkResp{Findings: []c16Finding{{Class: "harness", Detail: err.Error()}}})
	}
	resp := c16WorkResp{Partitions: map[string]int{}}
	seen := map[string]bool{}
	st := &explore.Stats{}
	deadline := time.Now().Add(time.Duration(q.BudgetS) * time.Second)
	explore.Explore(q.Prefix, q.Bound, 400, c16NewRun(c16Scenarios[q.Scenario], func(f c16Finding) {
		if !seen[f.Class] && len(resp.Findings) < 20 {
			seen[f.Class] = true
			resp.Findings = append(resp.Findings, f)
		}
	}, resp.Partitions), st, func() bool {
		if time.Now().After(deadline) {
			resp.Capped = true
			return true
		}
		return false
	})
	resp.Executions, resp.Points, resp.MaxPoints, resp.Deadlocks = st.Executions, st.Points, st.MaxPoints, st.Deadlocks
	return mustJSON(resp)
}

func c16Concurrent(r *hx.Run) {
	bound := 2
	budget := 120
	if r.Tier == "thorough" {
		bound = 3
		budget = 2400
	}
	pool := hx.NewPool("C16", 16)
	pool.Timeout = time.Duration(budget+60) * time.Second
	defer pool.Close()
	totalExec, totalPts, maxPts := int64(0), int64(0), 0
	partitions := map[string]int{}
	capped := false
	for si, sc := range c16Scenarios {
		if r.Only != "" && !strings.HasPrefix(r.Only, "conc|"+sc.Name) {
			continue
		}
		// replay of one recorded schedule
		if strings.HasPrefix(r.Only, "conc|"+sc.Name+"|") {
			var prefix []int
			_ = json.Unmarshal([]byte(strings.TrimPrefix(r.Only, "conc|"+sc.Name+"|")), &prefix)
			var first *c16Finding
			for i := 0; i < 2; i++ {
				names, bodies, check := c16NewRun(sc, func(f c16Finding) {
					if first == nil {
						ff := f
						first = &ff
					}
				}, map[string]int{})()
				s, err := explore.Run(prefix, names, bodies, 400)
				check(s, err)
			}
			if first != nil {
				r.Violation("concurrent:"+first.Class, r.Only, first.Detail+"\n  schedule: "+strings.Join(first.Trace, " "), first)
			}
			continue
		}
		// root execution in-process to obtain the first-level subtrees, then shard them over worker processes
		var rootFindings []c16Finding
		names, bodies, check := c16NewRun(sc, func(f c16Finding) { rootFindings = append(rootFindings, f) }, partitions)()
		s, err := explore.Run(nil, names, bodies, 400)
		check(s, err)
		totalExec++
		children := explore.Children(s, 0, bound)
		var mu sync.Mutex
		findings := append([]c16Finding{}, rootFindings...)
		hx.ParallelFor(len(children), func(ci int) {
			child := children[ci]
			raw, fatal := pool.Exec(mustJSON(c16WorkReq{Scenario: si, Prefix: child, Bound: bound, BudgetS: budget}))
			mu.Lock()
			defer mu.Unlock()
			if fatal != "" {
				findings = append(findings, c16Finding{Class: "worker-" + fatal, Detail: "exploration worker died: " + fatal, Prefix: child})
				return
			}
			var resp c16WorkResp
			if err := json.Unmarshal(raw, &resp); err != nil {
				panic(fmt.Sprintf("bad worker response: %v %q", err, hx.Trunc(string(raw), 200)))
			}
			totalExec += resp.Executions
			totalPts += resp.Points
			if resp.MaxPoints > maxPts {
				maxPts = resp.MaxPoints
			}
			for k, v := range resp.Partitions {
				partitions[k] += v
			}
			if resp.Capped {
				capped = true
			}
			findings = append(findings, resp.Findings...)
		})
		for _, f := range findings {
			pb, _ := json.Marshal(f.Prefix)
			caseID := "conc|" + sc.Name + "|" + string(pb)
			if strings.HasPrefix(f.Class, "worker-") || f.Class == "harness" {
				panic("C16 harness error: " + f.Detail)
			}
			// a violating schedule is re-run 5 times from its choice list before it is reported
			stable := true
			for i := 0; i < 5; i++ {
				got := ""
				names, bodies, check := c16NewRun(sc, func(x c16Finding) {
					if got == "" {
						got = x.Class
					}
				}, map[string]int{})()
				s2, err2 := explore.Run(f.Prefix, names, bodies, 400)
				check(s2, err2)
				if got != f.Class {
					stable = false
				}
			}
			if !stable {
				panic(fmt.Sprintf("C16 harness error: schedule %v does not reproduce finding %s", f.Prefix, f.Class))
			}
			r.Violation("concurrent:"+f.Class, caseID, fmt.Sprintf("scenario %s: %s\n  schedule: %s", sc.Name, f.Detail, hx.Trunc(strings.Join(f.Trace, " "), 1200)), f)
		}
		r.Sample(map[string]interface{}{"scenario": sc.Name, "default_schedule": hx.Trunc(strings.Join(s.Trace, " "), 400)})
	}
	r.EvalN(totalExec)
	r.Trace(totalExec)
	r.Trans(totalPts)
	r.Extra["concurrent_executions"] = totalExec
	r.Extra["concurrent_choice_points"] = totalPts
	r.Extra["concurrent_max_points_per_execution"] = maxPts
	r.Extra["concurrent_deviation_bound_completed"] = bound
	r.Extra["concurrent_distinct_batch_partitions"] = len(partitions)
	for k := range partitions {
		r.Nontrivial("partition|" + k)
	}
	if capped {
		r.Exhaustive = false
		r.Extra["concurrent_note"] = "a worker hit its time budget: the deviation bound was not completed for every subtree"
	}
}

func c16(r *hx.Run) {
	fx.Quiet()
	r.Rule = "(a) breadth-first search over event sequences {Add(op, version) over 6 operations (incl. an expired one, which is dropped, and a not-yet-valid one, whose batch is refused and stays queued) x 2 protocol versions; monitor tick; timeout tick; each tick with no fault, a chosen CAS write failing, the anchor write failing, or the writer's protocol-version lookup failing} to depth 5 (thorough 6) with <=3 (4) adds (quick: 8 add events and 12 tick events; thorough: 10 and 20), de-duplicated on the reference state; every transition replays the sequence on a fresh real Writer + cutter + MemQueue + OperationHandler in lock-step with the list reference model (queue content, every handler invocation, every anchored batch); (b) stateless exploration of 4 concurrent scenarios (2-3 submitter goroutines + a writer goroutine taking explorer-chosen ticks and faults) under a cooperative scheduler with scheduling points at every mutex/atomic operation of memqueue.go / writer.go (import-rewritten overlay), all executions with <=2 (thorough 3) deviations (preemptions + faults): linearized queue calls replayed on a FIFO list, batch invariants, no deadlock, and after a fault-free drain every accepted operation anchored exactly once; (c) the writer's own goroutine (Start: timers + select loop) with a 2 ms monitor interval and a 24 h batch timeout: an undersized batch is not cut by any monitor tick (only the part in front of a version boundary is), a stopped writer anchors nothing more. Non-trivial: distinct reference states with an anchored batch; distinct batch partitions observed."
	t0 := time.Now()
	if (r.Only == "" || strings.HasPrefix(r.Only, "seq|")) && os.Getenv("VERIF_C16_PART") != "conc" {
		c16Sequential(r)
	}
	r.Extra["sequential_wall_s"] = time.Since(t0).Seconds()
	t1 := time.Now()
	if (r.Only == "" || strings.HasPrefix(r.Only, "conc|")) && os.Getenv("VERIF_C16_PART") != "seq" {
		c16Concurrent(r)
	}
	r.Extra["concurrent_wall_s"] = time.Since(t1).Seconds()
	if r.Only == "" || strings.HasPrefix(r.Only, "mainloop|") {
		c16MainLoop(r)
	}
	// supporting free-running pass under the race detector (thorough tier; binary built by run.sh)
	if bin := os.Getenv("VERIF_RACE_BIN"); bin != "" && r.Only == "" {
		cmd := exec.Command(bin, "--race-pass", "C16")
		cmd.Env = append(os.Environ(), "GORACE=exitcode=66 halt_on_error=1")
		out, err := cmd.CombinedOutput()
		code := 0
		if ee, ok := err.(*exec.ExitError); ok {
			code = ee.ExitCode()
		} else if err != nil {
			code = -1
		}
		r.Extra["race_pass_exit_code"] = code
		r.Extra["race_pass_executions"] = len(c16Scenarios) * 150
		switch code {
		case 0:
		case 66:
			r.Violation("supporting:data-race", "racepass", "the free-running pass under the race detector reported a data race:\n"+hx.Trunc(string(out), 2500), map[string]interface{}{"output": hx.Trunc(string(out), 6000)})
		case 1:
			r.Violation("supporting:free-running-exactly-once", "racepass", "free-running pass: "+hx.Trunc(string(out), 1500), nil)
		default:
			panic(fmt.Sprintf("race pass failed to run (exit %d): %s", code, hx.Trunc(string(out), 800)))
		}
	}
	r.Assumptions = append(r.Assumptions,
		"scheduling points are the synchronisation operations (RWMutex, atomic) and the harness-owned CAS / anchor calls; unsynchronised data accesses and weak-memory effects are not modelled (a free-running -race pass is a separate supporting run, not part of this verdict)",
		"MemQueue is volatile: a crash is explored as a step that returns an error at that point (CAS / anchor write failures)",
		"writer ticks are delivered through the build-tag hook Writer.VerifStep instead of wall-clock tickers")
}
