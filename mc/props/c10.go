package props

import (
	"bytes"
	"encoding/base64"
	"encoding/json"
	"fmt"
	"sort"
	"strings"

	"github.com/trustbloc/sidetree-core-go/pkg/api/operation"
	"github.com/trustbloc/sidetree-core-go/pkg/api/protocol"
	"github.com/trustbloc/sidetree-core-go/pkg/dochandler"
	"github.com/trustbloc/sidetree-core-go/pkg/versions/1_0/operationparser"

	"verif/mc/fx"
	"verif/mc/hx"
	"verif/mc/ref/doc"
	"verif/mc/ref/jcs"
)

func init() { register("C10", c10) }

// ---- independent acceptance predicate (only the rules the statement makes)

func refHashOK(v interface{}, p *protocol.Protocol) (uint, bool) {
	s, ok := v.(string)
	if !ok || s == "" || len(s) > int(p.MaxOperationHashLength) {
		return 0, false
	}
	b, err := base64.RawURLEncoding.DecodeString(s)
	if err != nil || len(b) < 2 {
		return 0, false
	}
	code, l := uint(b[0]), int(b[1])
	if b[0] >= 0x80 || b[1] >= 0x80 || len(b)-2 != l {
		return 0, false
	}
	for _, a := range p.MultihashAlgorithms {
		if a == code {
			return code, true
		}
	}
	return 0, false
}

// c10HashVariants returns malformed relatives of a multihash string: trailing bytes after a complete multihash, a declared
// length one smaller / larger than the digest, a truncated digest, base64 padding, the same bytes with non-zero unused bits in the last character.
func c10HashVariants(v interface{}) []string {
	s, ok := v.(string)
	if !ok {
		return nil
	}
	b, err := base64.RawURLEncoding.DecodeString(s)
	if err != nil || len(b) < 4 || int(b[1]) != len(b)-2 || b[0] >= 0x80 {
		return nil
	}
	enc := func(x []byte) string { return base64.RawURLEncoding.EncodeToString(x) }
	shorter := append([]byte{}, b...)
	shorter[1]--
	longer := append([]byte{}, b...)
	longer[1]++
	// the same bytes spelled with non-zero unused bits in the last base64url character (lenient decoders ignore them): another
	// string, so not "the hash of" anything that is compared as a string
	var respelled []string
	if len(b)%3 != 0 {
		const alphabet = "ABCDEFGHIJKLMNOPQRSTUVWXYZabcdefghijklmnopqrstuvwxyz0123456789-_"
		if i := strings.IndexByte(alphabet, s[len(s)-1]); i >= 0 {
			respelled = append(respelled, s[:len(s)-1]+string(alphabet[i|1]))
			if len(b)%3 == 1 {
				respelled = append(respelled, s[:len(s)-1]+string(alphabet[i|8]))
			}
		}
	}
	return append(respelled, enc(append(append([]byte{}, b...), 1, 2, 3, 4, 5, 6)), enc(append(append([]byte{}, b...), 0)), enc(shorter), enc(longer), enc(b[:len(b)-1]), s+"=", enc(append(append([]byte{}, b...), b...)))
}

// c10Respell returns other base64url spellings of the same bytes (non-zero unused bits in the last character, an embedded line
// break) for any string member that is base64url text - a key coordinate, a nonce: lenient decoders read them as the same bytes.
func c10Respell(v interface{}) []string {
	s, ok := v.(string)
	if !ok || len(s) < 4 {
		return nil
	}
	b, err := base64.RawURLEncoding.DecodeString(s)
	if err != nil || base64.RawURLEncoding.EncodeToString(b) != s {
		return nil
	}
	out := []string{s[:2] + "\n" + s[2:]}
	if len(b)%3 != 0 {
		const alphabet = "ABCDEFGHIJKLMNOPQRSTUVWXYZabcdefghijklmnopqrstuvwxyz0123456789-_"
		if i := strings.IndexByte(alphabet, s[len(s)-1]); i >= 0 && i|1 != i {
			out = append(out, s[:len(s)-1]+string(alphabet[i|1]))
		}
	}
	return out
}

func has(list []string, s string) bool {
	for _, x := range list {
		if x == s {
			return true
		}
	}
	return false
}

func refDeltaOK(d interface{}, p *protocol.Protocol) string {
	dm, ok := d.(map[string]interface{})
	if !ok {
		return "delta missing"
	}
	patches, ok := dm["patches"].([]interface{})
	if !ok || len(patches) == 0 {
		return "patches missing"
	}
	for _, pt := range patches {
		pm, ok := pt.(map[string]interface{})
		if !ok {
			return "patch not object"
		}
		a, ok := pm["action"].(string)
		if !ok || !has(p.Patches, a) {
			return "patch action not enabled"
		}
	}
	if _, ok := refHashOK(dm["updateCommitment"], p); !ok {
		return "update commitment hash"
	}
	model := map[string]interface{}{"patches": patches, "updateCommitment": dm["updateCommitment"]}
	if len(jcs.MustCanon(doc.Plain(model))) > int(p.MaxDeltaSize) {
		return "delta size"
	}
	return ""
}

// refAccept returns "" when the request satisfies every rule of the statement, else the violated rule.
func refAccept(req []byte, p *protocol.Protocol) string {
	if len(req) > int(p.MaxOperationSize) {
		return "operation size"
	}
	var m map[string]interface{}
	if err := json.Unmarshal(req, &m); err != nil || m == nil {
		return "not a JSON object"
	}
	typ, _ := m["type"].(string)
	switch typ {
	case "create":
		sd, ok := m["suffixData"].(map[string]interface{})
		if !ok {
			return "suffix data missing"
		}
		if _, ok := refHashOK(sd["recoveryCommitment"], p); !ok {
			return "recovery commitment hash"
		}
		if _, ok := refHashOK(sd["deltaHash"], p); !ok {
			return "delta hash"
		}
		return refDeltaOK(m["delta"], p)
	case "update", "recover", "deactivate":
		rvCode, ok := refHashOK(m["revealValue"], p)
		if !ok {
			return "reveal value hash"
		}
		sdata, ok := m["signedData"].(string)
		if !ok {
			return "signed data missing"
		}
		parts := strings.Split(sdata, ".")
		if len(parts) != 3 {
			return "compact jws"
		}
		hb, e1 := base64.RawURLEncoding.DecodeString(parts[0])
		pb, e2 := base64.RawURLEncoding.DecodeString(parts[1])
		if e1 != nil || e2 != nil {
			return "compact jws base64"
		}
		var hdr map[string]interface{}
		if json.Unmarshal(hb, &hdr) != nil || hdr == nil {
			return "header"
		}
		alg, ok := hdr["alg"].(string)
		if !ok || !has(p.SignatureAlgorithms, alg) {
			return "signature algorithm"
		}
		var pl map[string]interface{}
		if json.Unmarshal(pb, &pl) != nil || pl == nil {
			return "payload"
		}
		keyName := "recoveryKey"
		if typ == "update" {
			keyName = "updateKey"
		}
		key, ok := pl[keyName].(map[string]interface{})
		if !ok {
			return "signing key missing"
		}
		crv, _ := key["crv"].(string)
		if !has(p.KeyAlgorithms, crv) {
			return "key algorithm"
		}
		str := func(k string) string { s, _ := key[k].(string); return s }
		nonce := str("nonce")
		if nonce != "" {
			nb, err := base64.RawURLEncoding.DecodeString(nonce)
			if err != nil || len(nb) != int(p.NonceSize) {
				return "nonce size"
			}
		}
		model := map[string]interface{}{"kty": str("kty"), "crv": crv, "x": str("x"), "y": str("y")}
		if nonce != "" {
			model["nonce"] = nonce
		}
		if fx.ModelHash(rvCode, model) != m["revealValue"].(string) {
			return "reveal value is not the hash of the signing key"
		}
		if typ != "deactivate" {
			if _, ok := refHashOK(pl["deltaHash"], p); !ok {
				return "signed delta hash"
			}
			if typ == "recover" {
				if _, ok := refHashOK(pl["recoveryCommitment"], p); !ok {
					return "signed recovery commitment hash"
				}
			}
			return refDeltaOK(m["delta"], p)
		}
		return ""
	}
	return "type"
}

// ---- seeds

type c10Seed struct {
	name   string
	typ    string
	kt     string
	nonce  string
	create *fx.CreateSpec
	op     *fx.OpSpec
}

func (s *c10Seed) build() []byte {
	if s.create != nil {
		b, _ := fx.Create(s.create)
		return b
	}
	return s.op.Build()
}

func c10Seeds() []*c10Seed {
	var out []*c10Seed
	patches := []interface{}{fx.AddServicePatch("s1", "https://example.com/s1"), fx.JSONPatch(fx.JOp("add", "/x", "y"))}
	for _, kt := range fx.KeyTypes {
		for _, nonce := range []string{"", fx.B64([]byte("0123456789abcdef"))} {
			if nonce != "" && kt != fx.Ed25519 && kt != fx.P256 {
				continue
			}
			k, k2, k3 := fx.NewKey(kt, "c10/a"), fx.NewKey(kt, "c10/b"), fx.NewKey(kt, "c10/c")
			tag := kt + "/n=" + fmt.Sprint(nonce != "")
			if nonce == "" {
				out = append(out, &c10Seed{name: "create|" + tag, typ: "create", kt: kt,
					create: &fx.CreateSpec{RecoveryCommit: fx.Commit(k, fx.SHA256), UpdateCommit: fx.Commit(k2, fx.SHA256), Patches: patches, Code: fx.SHA256, AnchorOrigin: "origin"}})
			}
			out = append(out, &c10Seed{name: "update|" + tag, typ: "update", kt: kt, nonce: nonce,
				op: &fx.OpSpec{Type: "update", Suffix: "EiSuffix", SignKey: k, Nonce: nonce, NextUpdate: fx.Commit(k2, fx.SHA256), Patches: patches, Code: fx.SHA256, From: 5, Until: 50}})
			out = append(out, &c10Seed{name: "recover|" + tag, typ: "recover", kt: kt, nonce: nonce,
				op: &fx.OpSpec{Type: "recover", Suffix: "EiSuffix", SignKey: k, Nonce: nonce, NextRecov: fx.Commit(k2, fx.SHA256), NextUpdate: fx.Commit(k3, fx.SHA256), Patches: patches, Code: fx.SHA256, Origin: "origin"}})
			out = append(out, &c10Seed{name: "deactivate|" + tag, typ: "deactivate", kt: kt, nonce: nonce,
				op: &fx.OpSpec{Type: "deactivate", Suffix: "EiSuffix", SignKey: k, Nonce: nonce, Code: fx.SHA256}})
		}
	}
	return out
}

func parseNoPanic(r *hx.Run, caseID, what string, f func() error) (err error, panicked bool) {
	defer func() {
		if p := recover(); p != nil {
			panicked = true
			err = fmt.Errorf("panic: %v", p)
			r.Violation("panic:"+what, caseID, fmt.Sprintf("%s panicked: %v", what, p), map[string]interface{}{"case": caseID})
		}
	}()
	return f(), false
}

// jsonPaths lists every path of a JSON tree.
func jsonPaths(v interface{}, prefix []string, out *[][]string) {
	switch t := v.(type) {
	case map[string]interface{}:
		keys := make([]string, 0, len(t))
		for k := range t {
			keys = append(keys, k)
		}
		sort.Strings(keys)
		for _, k := range keys {
			p := append(append([]string{}, prefix...), k)
			*out = append(*out, p)
			jsonPaths(t[k], p, out)
		}
	case []interface{}:
		for i := range t {
			p := append(append([]string{}, prefix...), fmt.Sprint(i))
			*out = append(*out, p)
			jsonPaths(t[i], p, out)
		}
	}
}

// setPath returns a deep copy of root with the value at path replaced (remove=true deletes it).
// getPath reads the value at a JSON path (nil when absent).
func getPath(root interface{}, path []string) interface{} {
	cur := root
	for _, k := range path {
		switch t := cur.(type) {
		case map[string]interface{}:
			cur = t[k]
		case []interface{}:
			var i int
			if _, err := fmt.Sscan(k, &i); err != nil || i < 0 || i >= len(t) {
				return nil
			}
			cur = t[i]
		default:
			return nil
		}
	}
	return cur
}

func setPath(root interface{}, path []string, val interface{}, remove bool) interface{} {
	c := doc.Clone(root)
	var cur interface{} = c
	for i, k := range path {
		last := i == len(path)-1
		switch t := cur.(type) {
		case map[string]interface{}:
			if last {
				if remove {
					delete(t, k)
				} else {
					t[k] = val
				}
				return c
			}
			cur = t[k]
		case []interface{}:
			var idx int
			fmt.Sscan(k, &idx)
			if last {
				if remove {
					return nil // element removal handled by caller via parent replacement
				}
				t[idx] = val
				return c
			}
			cur = t[idx]
		}
	}
	return c
}

var c10Replacements = []interface{}{nil, "", 0.0, []interface{}{}, map[string]interface{}{}, true, "x", "EiAAAAAAAAAAAAAAAAAAAAAAAAAAAAAAAAAAAAAAAAAAAA", []interface{}{"a"}, 1e300, "\u0000"}

// ---- intake through the document handler with two protocol versions

type c10Writer struct{ versions []uint64 }

func (w *c10Writer) Add(_ *operation.QueuedOperation, protocolVersion uint64) error {
	w.versions = append(w.versions, protocolVersion)
	return nil
}

// c10ToggleClient fails every version lookup while *fail is set.
type c10ToggleClient struct {
	*fx.Client
	fail *bool
}

func (c c10ToggleClient) Get(t uint64) (protocol.Version, error) {
	if *c.fail {
		return nil, fmt.Errorf("protocol configuration store unavailable")
	}
	return c.Client.Get(t)
}

type c10PassThrough struct{}

func (c10PassThrough) Decorate(op *operation.Operation) (*operation.Operation, error) { return op, nil }

// c10TwoVersionIntake submits req to a DocumentHandler whose protocol client has two versions (genesis times 0 and 100), one
// with the parameters under test and one with the generous base parameters, in both layouts and with either version current:
// a request submitted for protocol version t is judged by the rules of the version in force at t (and queued under it),
// whatever the current version is. wantStrict is the expected verdict under the parameters under test; base accepts req.
func c10TwoVersionIntake(r *hx.Run, caseID, ns string, strict, base protocol.Protocol, req []byte, wantStrict bool) {
	for layout := 0; layout < 2; layout++ {
		first, second := strict, base
		if layout == 1 {
			first, second = base, strict
		}
		first.GenesisTime, second.GenesisTime = 0, 100
		v0, v1 := fx.NewVersion(first, nil), fx.NewVersion(second, nil)
		for cur := 0; cur < 2; cur++ {
			client := fx.NewClient(v0, v1)
			if cur == 0 {
				client.SetCurrent(v0)
			}
			// one handler: a request accepted for one version, then the protocol client's lookup FAILS for the next submission. A
			// request that breaks the rules of the version it is submitted for must not get in on remembered / substituted rules
			if !wantStrict {
				for _, pair := range [][2]uint64{{0, 100}, {100, 0}, {57, 105}, {105, 57}} {
					if (pair[1] < 100) != (layout == 0) {
						continue // the second submission is not for the version with the parameters under test
					}
					fail := false
					h := dochandler.New(ns, nil, c10ToggleClient{client, &fail}, &c10Writer{}, nil, fx.Metrics, dochandler.WithOperationDecorator(c10PassThrough{}))
					_, _ = h.ProcessOperation(req, pair[0])
					fail = true
					_, err := h.ProcessOperation(req, pair[1])
					r.Eval()
					if err == nil {
						r.Violation("handler-intake-accepts-after-failed-version-lookup", fmt.Sprintf("%s|handler|layout=%d|cur=%d|t=%d>%d", caseID, layout, cur, pair[0], pair[1]),
							fmt.Sprintf("one DocumentHandler: ProcessOperation(request, %d), then the protocol-version lookup fails and ProcessOperation(request, %d) is accepted although the request breaks the rules of the version in force at %d", pair[0], pair[1], pair[1]), map[string]interface{}{"request": string(req)})
						return
					}
				}
			}
			for _, t := range []uint64{0, 57, 100, 105} {
				w := &c10Writer{}
				h := dochandler.New(ns, nil, client, w, nil, fx.Metrics, dochandler.WithOperationDecorator(c10PassThrough{}))
				_, err := h.ProcessOperation(req, t)
				r.Eval()
				underStrict := (t < 100) == (layout == 0)
				want, genesis := true, uint64(0)
				if underStrict {
					want = wantStrict
				}
				if t >= 100 {
					genesis = 100
				}
				if (err == nil) != want {
					r.Violation(fmt.Sprintf("handler-intake-under-wrong-version:accepted=%v", err == nil), fmt.Sprintf("%s|handler|layout=%d|cur=%d|t=%d", caseID, layout, cur, t),
						fmt.Sprintf("DocumentHandler.ProcessOperation(request, %d) with versions at 0 and 100 (parameters under test in the %s one, version %d current): accepted=%v, want %v (%v)",
							t, []string{"first", "second"}[layout], []uint64{0, 100}[cur], err == nil, want, err), map[string]interface{}{"request": string(req)})
					return
				}
				if err == nil && (len(w.versions) != 1 || w.versions[0] != genesis) {
					r.Violation("handler-intake-queued-under-wrong-version", fmt.Sprintf("%s|handler|layout=%d|cur=%d|t=%d", caseID, layout, cur, t),
						fmt.Sprintf("request submitted for protocol version %d was queued under %v, want [%d]", t, w.versions, genesis), nil)
					return
				}
			}
		}
	}
}

func c10(r *hx.Run) {
	fx.Quiet()
	r.Rule = "(a) for each valid seed (4 types x 5 key types, nonce absent/present for Ed25519 and P-256) every limit parameter is set to measured value -1, +0, +1 while all other parameters are generous and pairwise distinct: accepted iff limit >= measured (nonce: == measured); requests padded with white space at the size limit; deltas containing characters that encoding/json escapes at the delta limit; every enabled-list entry used by the request is removed in turn; unrelated parameters are toggled; each of these cases is also submitted to a DocumentHandler with two protocol versions (the tested parameters in the first or the second, either one current) for times in both versions: judged by, and queued under, the version in force at the submitted time (also: after an accepted submission the version lookup fails - a rule-breaking request is not let in); (b) every JSON path of the request, the decoded signed data and the protected header is removed / replaced by 11 foreign values (re-signed): accepted => independent rule predicate; (c) Parse, ParseOperation(batch and not), GetRevealValue, GetCommitment, ParseDID on every prefix, every path-mutation and a DID-string grammar: error or value, never a panic. Non-trivial: distinct requests that the real parser rejects or that reach a boundary."
	seeds := c10Seeds()
	base := fx.DefaultProtocol()
	ns := "did:sidetree"
	parse := func(p protocol.Protocol, req []byte) error {
		_, err := operationparser.New(p).Parse(ns, req)
		return err
	}
	for _, s := range seeds {
		req := s.build()
		r.State()
		if err := parse(base, req); err != nil {
			panic(fmt.Sprintf("seed %s rejected: %v", s.name, err))
		}
		if why := refAccept(req, &base); why != "" {
			panic(fmt.Sprintf("seed %s fails reference predicate: %s", s.name, why))
		}
		var tree map[string]interface{}
		_ = json.Unmarshal(req, &tree)
		// ---------- (a) boundaries
		n := len(req)
		bound := func(param string, measured int, exact bool, set func(p *protocol.Protocol, v uint)) {
			for _, dv := range []int{-1, 0, 1} {
				caseID := fmt.Sprintf("a|%s|%s|%+d", s.name, param, dv)
				if !r.Want(caseID) {
					continue
				}
				p := base
				set(&p, uint(measured+dv))
				err := parse(p, req)
				want := dv >= 0
				if exact {
					want = dv == 0
				}
				r.Eval()
				r.Trans(1)
				r.Trace(1)
				r.Nontrivial(caseID)
				r.Outcome(fmt.Sprintf("boundary %s %+d accepted=%v", param, dv, err == nil))
				if (err == nil) != want {
					r.Violation(fmt.Sprintf("boundary:%s:%+d:accepted=%v", param, dv, err == nil), caseID,
						fmt.Sprintf("%s with %s=%d (measured %d): accepted=%v want %v (%v)", s.name, param, measured+dv, measured, err == nil, want, err), map[string]interface{}{"request": string(req)})
				}
				if err == nil {
					if why := refAccept(req, &p); why != "" {
						r.Violation("accepted-against-rule:"+why, caseID, fmt.Sprintf("%s accepted with %s=%d but violates: %s", s.name, param, measured+dv, why), nil)
					}
				}
				c10TwoVersionIntake(r, caseID, ns, p, base, req, want)
			}
		}
		bound("MaxOperationSize", n, false, func(p *protocol.Protocol, v uint) { p.MaxOperationSize = v })
		if s.typ != "deactivate" {
			d := len(jcs.MustCanon(tree["delta"]))
			bound("MaxDeltaSize", d, false, func(p *protocol.Protocol, v uint) { p.MaxDeltaSize = v })
		}
		if s.typ != "deactivate" {
			// a request that is SMALLER on the wire than its canonical delta (numbers spelled 1e20 expand to 21 digits): the delta
			// limit applies to the canonical delta, however small the request is
			cp := *s
			big := make([]interface{}, 80)
			for i := range big {
				big[i] = 1e20
			}
			extra := fx.JSONPatch(fx.JOp("add", "/big", big))
			if s.create != nil {
				c := *s.create
				c.Patches = append(append([]interface{}{}, c.Patches...), extra)
				cp.create = &c
			} else {
				o := *s.op
				o.Patches = append(append([]interface{}{}, o.Patches...), extra)
				cp.op = &o
			}
			canonReq := cp.build()
			wire := bytes.ReplaceAll(canonReq, []byte("100000000000000000000"), []byte("1e20"))
			var t2 map[string]interface{}
			_ = json.Unmarshal(wire, &t2)
			d2 := len(jcs.MustCanon(t2["delta"]))
			if len(wire) >= d2 {
				panic(fmt.Sprintf("seed %s: wire request (%d) is not smaller than its canonical delta (%d)", s.name, len(wire), d2))
			}
			for _, dv := range []int{-1, 0} {
				caseID := fmt.Sprintf("a|%s|MaxDeltaSize:wire-smaller-than-canonical|%+d", s.name, dv)
				if !r.Want(caseID) {
					continue
				}
				p := base
				p.MaxDeltaSize = uint(d2 + dv)
				err := parse(p, wire)
				r.Eval()
				r.Trans(1)
				r.Nontrivial(caseID)
				if (err == nil) != (dv >= 0) {
					r.Violation(fmt.Sprintf("boundary:MaxDeltaSize:wire-smaller-than-canonical:%+d:accepted=%v", dv, err == nil), caseID,
						fmt.Sprintf("%s: request of %d bytes whose canonical delta has %d bytes, MaxDeltaSize=%d: accepted=%v (%v)", s.name, len(wire), d2, d2+dv, err == nil, err), map[string]interface{}{"request": string(wire)})
				}
			}
		}
		// white space around the request counts: the limit is on the bytes received (and handed on), not on a trimmed copy
		for pi, pad := range [][2]string{{"", "\n"}, {"", " "}, {"", "\r\n"}, {" ", ""}, {"\n", "\t"}, {"", strings.Repeat(" ", 500)}} {
			caseID := fmt.Sprintf("a|%s|MaxOperationSize:padded|%d", s.name, pi)
			if !r.Want(caseID) {
				continue
			}
			padded := []byte(pad[0] + string(req) + pad[1])
			p := base
			p.MaxOperationSize = uint(n)
			err := parse(p, padded)
			r.Eval()
			r.Trans(1)
			r.Nontrivial(caseID)
			if err == nil {
				r.Violation("boundary:MaxOperationSize:padded-request-accepted", caseID, fmt.Sprintf("%s: request of %d bytes (%d without the surrounding white space) accepted with MaxOperationSize=%d", s.name, len(padded), n, n), map[string]interface{}{"request": string(padded)})
			}
		}
		if s.typ != "deactivate" {
			// a delta with characters that encoding/json escapes (& < > U+2028) but the canonical form keeps raw: the limit
			// applies to the canonical delta
			cp := *s
			extra := fx.AddServicePatch("amp", "https://example.com/?a=1&b=<2>\u2028c")
			if s.create != nil {
				c := *s.create
				c.Patches = append(append([]interface{}{}, c.Patches...), extra)
				cp.create = &c
			} else {
				o := *s.op
				o.Patches = append(append([]interface{}{}, o.Patches...), extra)
				cp.op = &o
			}
			req3 := cp.build()
			var t3 map[string]interface{}
			_ = json.Unmarshal(req3, &t3)
			d3 := len(jcs.MustCanon(t3["delta"]))
			for _, dv := range []int{-1, 0, 1} {
				caseID := fmt.Sprintf("a|%s|MaxDeltaSize:escaped-characters|%+d", s.name, dv)
				if !r.Want(caseID) {
					continue
				}
				p := base
				p.MaxDeltaSize = uint(d3 + dv)
				err := parse(p, req3)
				r.Eval()
				r.Trans(1)
				r.Nontrivial(caseID)
				if (err == nil) != (dv >= 0) {
					r.Violation(fmt.Sprintf("boundary:MaxDeltaSize:escaped-characters:%+d:accepted=%v", dv, err == nil), caseID,
						fmt.Sprintf("%s: canonical delta of %d bytes containing & < > U+2028, MaxDeltaSize=%d: accepted=%v (%v)", s.name, d3, d3+dv, err == nil, err), map[string]interface{}{"request": string(req3)})
				}
			}
		}
		bound("MaxOperationHashLength", len(fx.Multihash(fx.SHA256, []byte("x"))), false, func(p *protocol.Protocol, v uint) { p.MaxOperationHashLength = v })
		if s.nonce != "" {
			bound("NonceSize", 16, true, func(p *protocol.Protocol, v uint) { p.NonceSize = uint64(v) })
		}
		// one hash field at a time under SHA2-512 (86 chars), limit 85/86/87
		type hf struct {
			name string
			set  func(s2 *c10Seed)
		}
		var hfs []hf
		k512 := fx.NewKey(s.kt, "c10/h512")
		switch s.typ {
		case "create":
			hfs = []hf{{"recoveryCommitment", func(x *c10Seed) { x.create.RecoveryCommit = fx.Commit(k512, fx.SHA512) }},
				{"updateCommitment", func(x *c10Seed) { x.create.UpdateCommit = fx.Commit(k512, fx.SHA512) }},
				{"deltaHash", func(x *c10Seed) { x.create.Code = fx.SHA512 }}}
		case "update":
			hfs = []hf{{"updateCommitment", func(x *c10Seed) { x.op.NextUpdate = fx.Commit(k512, fx.SHA512) }},
				{"revealValue+deltaHash", func(x *c10Seed) { x.op.Code = fx.SHA512 }}}
		case "recover":
			hfs = []hf{{"updateCommitment", func(x *c10Seed) { x.op.NextUpdate = fx.Commit(k512, fx.SHA512) }},
				{"recoveryCommitment", func(x *c10Seed) { x.op.NextRecov = fx.Commit(k512, fx.SHA512) }},
				{"revealValue+deltaHash", func(x *c10Seed) { x.op.Code = fx.SHA512 }}}
		case "deactivate":
			hfs = []hf{{"revealValue", func(x *c10Seed) { x.op.Code = fx.SHA512 }}}
		}
		len512 := len(fx.Multihash(fx.SHA512, []byte("x"))) // 88 base64url characters
		for _, h := range hfs {
			cp := *s
			if s.create != nil {
				c := *s.create
				cp.create = &c
			} else {
				o := *s.op
				cp.op = &o
			}
			h.set(&cp)
			req2 := cp.build()
			for _, dv := range []int{-1, 0, 1} {
				caseID := fmt.Sprintf("a|%s|hashlen:%s|%+d", s.name, h.name, dv)
				if !r.Want(caseID) {
					continue
				}
				p := base
				p.MaxOperationHashLength = uint(len512 + dv)
				err := parse(p, req2)
				r.Eval()
				r.Trans(1)
				r.Nontrivial(caseID)
				if (err == nil) != (dv >= 0) {
					r.Violation(fmt.Sprintf("boundary:hashlen:%s:%+d:accepted=%v", h.name, dv, err == nil), caseID,
						fmt.Sprintf("%s with only %s under SHA2-512 (%d chars) and MaxOperationHashLength=%d: accepted=%v (%v)", s.name, h.name, len512, len512+dv, err == nil, err), nil)
				}
				c10TwoVersionIntake(r, caseID, ns, p, base, req2, dv >= 0)
				// the algorithm must be enabled
				p = base
				p.MultihashAlgorithms = []uint{fx.SHA256}
				if err := parse(p, req2); err == nil {
					r.Violation("disabled-multihash-accepted:"+h.name, caseID, fmt.Sprintf("%s accepted although %s uses SHA2-512 which is not enabled", s.name, h.name), nil)
				}
			}
		}
		// membership toggles
		toggle := func(param, entry string, want bool, mut func(p *protocol.Protocol)) {
			caseID := fmt.Sprintf("a|%s|without:%s:%s", s.name, param, entry)
			if !r.Want(caseID) {
				return
			}
			p := base
			mut(&p)
			err := parse(p, req)
			r.Eval()
			r.Trans(1)
			r.Nontrivial(caseID)
			if (err == nil) != want {
				r.Violation(fmt.Sprintf("enabled-list:%s:%s:accepted=%v", param, entry, err == nil), caseID,
					fmt.Sprintf("%s with %s lacking %q: accepted=%v want %v (%v)", s.name, param, entry, err == nil, want, err), nil)
			}
			c10TwoVersionIntake(r, caseID, ns, p, base, req, want)
		}
		without := func(list []string, e string) []string {
			var out []string
			for _, x := range list {
				if x != e {
					out = append(out, x)
				}
			}
			return out
		}
		for _, alg := range fx.AllSigAlgs {
			alg := alg
			used := s.typ != "create" && alg == fx.AlgFor(s.kt)
			toggle("SignatureAlgorithms", alg, !used, func(p *protocol.Protocol) { p.SignatureAlgorithms = without(p.SignatureAlgorithms, alg) })
		}
		for _, crv := range fx.KeyTypes {
			crv := crv
			used := s.typ != "create" && crv == s.kt
			toggle("KeyAlgorithms", crv, !used, func(p *protocol.Protocol) { p.KeyAlgorithms = without(p.KeyAlgorithms, crv) })
		}
		for _, a := range fx.AllPatches {
			a := a
			used := s.typ != "deactivate" && (a == "add-services" || a == "ietf-json-patch")
			toggle("Patches", a, !used, func(p *protocol.Protocol) { p.Patches = without(p.Patches, a) })
		}
		toggle("MultihashAlgorithms", "sha2-256", false, func(p *protocol.Protocol) { p.MultihashAlgorithms = []uint{fx.SHA512} })
		toggle("MultihashAlgorithms", "sha2-512", true, func(p *protocol.Protocol) { p.MultihashAlgorithms = []uint{fx.SHA256} })
		for name, mut := range map[string]func(p *protocol.Protocol){
			"MaxOperationCount":            func(p *protocol.Protocol) { p.MaxOperationCount = 1 },
			"MaxOperationTimeDelta":        func(p *protocol.Protocol) { p.MaxOperationTimeDelta = 1 },
			"MaxCasURILength":              func(p *protocol.Protocol) { p.MaxCasURILength = 1 },
			"MaxChunkFileSize":             func(p *protocol.Protocol) { p.MaxChunkFileSize = 1 },
			"MaxCoreIndexFileSize":         func(p *protocol.Protocol) { p.MaxCoreIndexFileSize = 1 },
			"MaxProofFileSize":             func(p *protocol.Protocol) { p.MaxProofFileSize = 1 },
			"MaxProvisionalIndexFileSize":  func(p *protocol.Protocol) { p.MaxProvisionalIndexFileSize = 1 },
			"MaxMemoryDecompressionFactor": func(p *protocol.Protocol) { p.MaxMemoryDecompressionFactor = 1 },
			"CompressionAlgorithm":         func(p *protocol.Protocol) { p.CompressionAlgorithm = "none" },
		} {
			toggle("unrelated", name, true, mut)
		}
		if s.nonce == "" {
			toggle("unrelated", "NonceSize", true, func(p *protocol.Protocol) { p.NonceSize = 3 })
		}

		// ---------- (b) field mutations + (c) robustness on the same inputs
		var mutated [][]byte
		var labels []string
		var paths [][]string
		jsonPaths(map[string]interface{}(tree), nil, &paths)
		for _, path := range paths {
			if len(path) >= 1 && path[0] == "delta" && len(path) > 3 {
				continue // inside patch values: C18's domain
			}
			mutated = append(mutated, jcs.MustCanon(doc.Plain(setPath(tree, path, nil, true))))
			labels = append(labels, "req:"+strings.Join(path, "/")+":removed")
			for ri, rep := range c10Replacements {
				mutated = append(mutated, mustJSON(setPath(tree, path, rep, false)))
				labels = append(labels, fmt.Sprintf("req:%s:rep%d", strings.Join(path, "/"), ri))
			}
			for hi, hv := range c10HashVariants(getPath(tree, path)) {
				mutated = append(mutated, mustJSON(setPath(tree, path, hv, false)))
				labels = append(labels, fmt.Sprintf("req:%s:hash%d", strings.Join(path, "/"), hi))
			}
		}
		if s.op != nil {
			payload := s.op.SignedPayload()
			var ppaths [][]string
			jsonPaths(doc.Plain(payload), nil, &ppaths)
			ptree := doc.Plain(payload)
			rebuild := func(newPayload interface{}, hdr []byte) []byte {
				pb := mustJSON(newPayload)
				o := &fx.JWSOpts{}
				if hdr != nil {
					o.HeaderRaw = hdr
				}
				compact := fx.CompactJWS(s.op.SignKey, pb, o)
				t2 := doc.Clone(tree).(map[string]interface{})
				t2["signedData"] = compact
				return jcs.MustCanon(t2)
			}
			for _, path := range ppaths {
				mutated = append(mutated, rebuild(setPath(ptree, path, nil, true), nil))
				labels = append(labels, "signed:"+strings.Join(path, "/")+":removed")
				for ri, rep := range c10Replacements {
					mutated = append(mutated, rebuild(setPath(ptree, path, rep, false), nil))
					labels = append(labels, fmt.Sprintf("signed:%s:rep%d", strings.Join(path, "/"), ri))
				}
				for hi, hv := range c10HashVariants(getPath(ptree, path)) {
					mutated = append(mutated, rebuild(setPath(ptree, path, hv, false), nil))
					labels = append(labels, fmt.Sprintf("signed:%s:hash%d", strings.Join(path, "/"), hi))
				}
				for ri, rv := range c10Respell(getPath(ptree, path)) {
					mutated = append(mutated, rebuild(setPath(ptree, path, rv, false), nil))
					labels = append(labels, fmt.Sprintf("signed:%s:respelled%d", strings.Join(path, "/"), ri))
				}
			}
			// foreign but well-formed values
			other := fx.NewKey(s.kt, "c10/other")
			keyName := "recoveryKey"
			if s.typ == "update" {
				keyName = "updateKey"
			}
			mutated = append(mutated, rebuild(setPath(ptree, []string{keyName}, fx.JWKMap(other, ""), false), nil))
			labels = append(labels, "signed:key:other-key")
			otherType := fx.P256
			if s.kt == fx.P256 {
				otherType = fx.P384
			}
			mutated = append(mutated, rebuild(setPath(ptree, []string{keyName, "crv"}, otherType, false), nil))
			labels = append(labels, "signed:key:crv-other")
			mutated = append(mutated, rebuild(setPath(ptree, []string{keyName, "nonce"}, fx.B64([]byte("short")), false), nil))
			labels = append(labels, "signed:key:nonce-wrong-size")
			mutated = append(mutated, rebuild(setPath(ptree, []string{keyName, "nonce"}, "!!notbase64", false), nil))
			labels = append(labels, "signed:key:nonce-notb64")
			for hi, h := range []string{`{}`, `{"alg":""}`, `{"alg":"none"}`, `{"alg":"HS256"}`, `{"alg":1}`, `{"alg":null}`, `{"kid":"k"}`, `{"alg":"` + fx.AlgFor(s.kt) + `","typ":"JWT"}`,
				`{"alg":"` + fx.AlgFor(s.kt) + `","kid":1}`, `{"alg":"` + fx.AlgFor(s.kt) + `","b64":false}`, `[]`, `null`, `"x"`, `{"alg":"` + strings.ToLower(fx.AlgFor(s.kt)) + `"}`} {
				mutated = append(mutated, rebuild(ptree, []byte(h)))
				labels = append(labels, fmt.Sprintf("header:%d", hi))
			}
			// reveal value of another key / wrong algorithm digest
			t2 := doc.Clone(tree).(map[string]interface{})
			t2["revealValue"] = fx.Reveal(other, fx.SHA256)
			mutated = append(mutated, jcs.MustCanon(t2))
			labels = append(labels, "req:revealValue:other-key")
			// the true values repeated as extra members of the signed data while the request's own members carry foreign ones: the
			// request's members are what counts
			for _, fld := range []string{"revealValue", "didSuffix"} {
				orig, ok := tree[fld].(string)
				if !ok {
					continue
				}
				withExtra := doc.Clone(ptree).(map[string]interface{})
				withExtra[fld] = orig
				t4 := fx.MustJSON(string(rebuild(withExtra, nil))).(map[string]interface{})
				mutated = append(mutated, jcs.MustCanon(t4))
				labels = append(labels, "signed:+"+fld+":true-value")
				if fld == "revealValue" {
					t4b := doc.Clone(t4).(map[string]interface{})
					t4b[fld] = fx.Reveal(other, fx.SHA256)
					mutated = append(mutated, jcs.MustCanon(t4b))
					labels = append(labels, "signed:+"+fld+":true-value&req:"+fld+":other-key")
				}
			}
			t3 := doc.Clone(tree).(map[string]interface{})
			t3["revealValue"] = fx.B64(fx.MultihashBytes(0x12, fx.RawHash(fx.SHA256, []byte("x"))))
			mutated = append(mutated, jcs.MustCanon(t3))
			labels = append(labels, "req:revealValue:unrelated-digest")
		}
		for i := 0; i < n; i += 1 {
			mutated = append(mutated, req[:i])
			labels = append(labels, fmt.Sprintf("prefix:%d", i))
		}
		ver := fx.NewVersion(base, nil)
		hx.ParallelFor(len(mutated), func(i int) {
			caseID := fmt.Sprintf("b|%s|%s", s.name, labels[i])
			if !r.Want(caseID) {
				return
			}
			m := mutated[i]
			err, _ := parseNoPanic(r, caseID, "Parse", func() error { _, e := ver.Parser.Parse(ns, m); return e })
			r.Eval()
			r.Trans(1)
			r.Trace(1)
			if err == nil {
				r.Outcome("mutation accepted")
				if why := refAccept(m, &base); why != "" {
					r.Violation("accepted-against-rule:"+why, caseID, fmt.Sprintf("%s mutation %s accepted but violates: %s\n%s", s.name, labels[i], why, hx.Trunc(string(m), 400)), map[string]interface{}{"request": string(m)})
				}
			} else {
				r.Outcome("mutation rejected")
				r.Nontrivial(string(m))
			}
			for _, batch := range []bool{true, false} {
				parseNoPanic(r, caseID, fmt.Sprintf("ParseOperation(batch=%v)", batch), func() error { _, e := ver.Parser.ParseOperation(ns, m, batch); return e })
			}
			parseNoPanic(r, caseID, "GetRevealValue", func() error { _, e := ver.Parser.GetRevealValue(m); return e })
			parseNoPanic(r, caseID, "GetCommitment", func() error { _, e := ver.Parser.GetCommitment(m); return e })
			r.EvalN(4)
		})
		r.Sample(map[string]interface{}{"seed": s.name, "bytes": n, "mutations": len(mutated)})
	}
	// DID grammar
	ver := fx.NewVersion(base, nil)
	creq, sfx := fx.Create(seeds[0].create)
	var ct map[string]interface{}
	_ = json.Unmarshal(creq, &ct)
	delete(ct, "type")
	good := fx.B64(jcs.MustCanon(ct))
	var dids []string
	for _, nsv := range []string{"did:sidetree", "did:sidetree:", "did", "", "did:other", "did:sidetree:did:sidetree"} {
		for _, mid := range []string{"", sfx, ":" + sfx, sfx + ":", "::"} {
			for _, tail := range []string{"", ":", ":" + good, ":" + good[:len(good)-1], ":!!!", ":e30", ":" + fx.B64([]byte(`{"delta":null}`)), ":" + fx.B64([]byte(`[]`)), ":" + fx.B64([]byte(`null`)), ":" + good + ":" + good, ":" + fx.B64([]byte(` {"suffixData":{}}`))} {
				dids = append(dids, nsv+":"+mid+tail, nsv+mid+tail)
			}
		}
	}
	for i, d := range dids {
		caseID := fmt.Sprintf("did|%d", i)
		if !r.Want(caseID) {
			continue
		}
		for _, nsArg := range []string{"did:sidetree", "", "did"} {
			parseNoPanic(r, caseID, "ParseDID", func() error { _, _, e := ver.Parser.ParseDID(nsArg, d); return e })
			r.Eval()
		}
		r.Nontrivial(d)
	}
	r.Assumptions = append(r.Assumptions,
		"the reference predicate contains only the rules named in the statement (sizes, hash fields, enabled algorithms/curves/nonce/patch actions, reveal value = hash of the signing key); structural patch rules are decided by C18",
		"hash-length boundaries use the measured base64url lengths of SHA2-256 (46) and SHA2-512 (88) multihashes")
}

func mustJSON(v interface{}) []byte {
	b, err := json.Marshal(v)
	if err != nil {
		panic(err)
	}
	return b
}
