package props

import (
	"encoding/json"
	"fmt"
	"strings"

	"github.com/trustbloc/sidetree-core-go/pkg/api/operation"
	"github.com/trustbloc/sidetree-core-go/pkg/commitment"
	"github.com/trustbloc/sidetree-core-go/pkg/jws"
	"github.com/trustbloc/sidetree-core-go/pkg/patch"
	"github.com/trustbloc/sidetree-core-go/pkg/util/ecsigner"
	"github.com/trustbloc/sidetree-core-go/pkg/util/edsigner"
	"github.com/trustbloc/sidetree-core-go/pkg/util/pubkey"
	"github.com/trustbloc/sidetree-core-go/pkg/versions/1_0/client"

	"github.com/trustbloc/sidetree-core-go/pkg/versions/1_0/operationparser"

	"verif/mc/fx"
	"verif/mc/hx"
	"verif/mc/ref/doc"
	"verif/mc/ref/jcs"
	"verif/mc/ref/sidetree"
)

func init() { register("C11", c11) }

func libSigner(k *fx.Key, kid string) client.Signer {
	if k.Type == fx.Ed25519 {
		return edsigner.New(k.Ed, fx.AlgFor(k.Type), kid)
	}
	return ecsigner.New(k.EC, fx.AlgFor(k.Type), kid)
}

func libJWK(k *fx.Key, nonce string) (*jws.JWK, error) {
	j, err := pubkey.GetPublicKeyJWK(k.Public())
	if err != nil {
		return nil, err
	}
	j.Nonce = nonce
	return j, nil
}

func toPatches(vals []interface{}) []patch.Patch {
	b, _ := json.Marshal(vals)
	var ps []patch.Patch
	if err := json.Unmarshal(b, &ps); err != nil {
		panic(err)
	}
	return ps
}

// c11OriginSpy records the anchor origins the parser hands to the configured origin validator.
type c11OriginSpy struct{ seen []interface{} }

func (o *c11OriginSpy) Validate(v interface{}) error {
	o.seen = append(o.seen, v)
	return nil
}

// c11ServerTime accepts a window that contains the server time.
type c11ServerTime int64

func (t c11ServerTime) Validate(from, until int64) error {
	if from == 0 && until == 0 {
		return nil
	}
	if int64(t) < from {
		return operationparser.ErrOperationEarly
	}
	if int64(t) > until { // the window is inclusive at both ends
		return operationparser.ErrOperationExpired
	}
	return nil
}

func jsonEq(a, b interface{}) bool {
	return string(jcs.MustCanon(doc.Plain(a))) == string(jcs.MustCanon(doc.Plain(b)))
}

func c11(r *hx.Run) {
	fx.Quiet()
	r.Rule = "full product of builder inputs: 5 key types (EdDSA, ES256, ES384, ES512, ES256K) x 2 hash algorithms x {opaque document, patch list} x anchor origin {nil, string, object} x window {none, from only, from+until, from+until ending at the anchoring time, from only with the implied window ending at the anchoring time} x nonce {absent, 16 bytes} x kid {absent, present}, plus 16 configurations whose signing keys have a coordinate with a leading zero byte; the four client builders with the library's signers and JWK conversion produce create/update/recover/deactivate requests; each must be accepted by the real parser (configured with a server-time window validator, T inside every supplied window, and an anchor-origin validator that must see exactly the supplied origin of create and recover), parse back to the supplied suffix, commitments, patches, reveal value, key and window, and - anchored inside the window on a DID whose commitment matches - resolve on the real processor to the state computed by ref/doc + the supplied commitments (scenarios: create; +update; +recover; +update+recover; +deactivate; +recover+update at the same time; and, on a DID whose document a recover outside its window has left empty, +update and +deactivate). Non-trivial: every configuration (all reach resolution)."
	const T = 1000000
	type cfg struct {
		kt     string
		code   uint
		opaque bool
		origin int
		window int
		nonce  bool
		kid    bool
		short  string
	}
	var cfgs []cfg
	for _, kt := range fx.KeyTypes {
		for _, code := range []uint{fx.SHA256, fx.SHA512} {
			for _, opaque := range []bool{false, true} {
				for origin := 0; origin < 3; origin++ {
					for window := 0; window < 5; window++ {
						for _, nonce := range []bool{false, true} {
							for _, kid := range []bool{false, true} {
								cfgs = append(cfgs, cfg{kt, code, opaque, origin, window, nonce, kid, ""})
							}
						}
					}
				}
			}
		}
	}
	for _, kt := range []string{fx.P256, fx.P384, fx.P521, fx.Secp256k1} {
		for _, which := range []string{"x", "y"} {
			cfgs = append(cfgs, cfg{kt, fx.SHA256, false, 1, 2, false, false, which}, cfg{kt, fx.SHA512, true, 0, 0, true, true, which})
		}
	}
	origins := []interface{}{nil, "https://origin.example", map[string]interface{}{"a": "b", "n": []interface{}{1.0}}}
	hx.ParallelFor(len(cfgs), func(i int) {
		c := cfgs[i]
		caseID := fmt.Sprintf("%s|%d|opaque=%v|o%d|w%d|nonce=%v|kid=%v|short=%s", c.kt, c.code, c.opaque, c.origin, c.window, c.nonce, c.kid, c.short)
		if !r.Want(caseID) {
			return
		}
		fail := func(class, msg string) {
			r.Violation(class, caseID, caseID+": "+msg, map[string]interface{}{"config": caseID})
		}
		p := fx.DefaultProtocol()
		other := fx.SHA256 + fx.SHA512 - c.code
		p.MultihashAlgorithms = []uint{c.code, other}
		// the window implied by anchorFrom alone is [from, from+MaxOperationTimeDelta]; the delta is larger than every size limit
		// and the anchoring time sits deep inside the window, beyond from + any other protocol number
		p.MaxOperationTimeDelta = 300007
		// intake validates the signed window against the server time T (a validator in the style of a deployment: from <= T < until;
		// 0/0 means no window)
		originSpy := &c11OriginSpy{}
		ver := fx.NewVersion(p, &fx.VersionOpts{ParserOpts: []operationparser.Option{operationparser.WithAnchorTimeValidator(c11ServerTime(T)), operationparser.WithAnchorOriginValidator(originSpy)}})
		cl := fx.NewClient(ver)
		nonce := ""
		if c.nonce {
			nonce = fx.B64([]byte("0123456789abcdef"))
		}
		kid := ""
		if c.kid {
			kid = "signing-key-1"
		}
		var from, until int64
		switch c.window {
		case 1:
			from = T - 250000
		case 2:
			from, until = T-250000, T+10
		case 3: // anchored at the very last second of an explicit window
			from, until = T-250000, T
		case 4: // anchored at the very last second of the window implied by anchorFrom alone
			from = T - 300007
		}
		keys := map[string]*fx.Key{}
		jwks := map[string]*jws.JWK{}
		commits := map[string]string{}
		for _, n := range []string{"r0", "r1", "u0", "u1", "u2"} {
			k := fx.NewKey(c.kt, "c11/"+n)
			if c.short != "" && n == "u0" {
				k = fx.ShortCoordKeyN(c.kt, c.short, 0) // signing keys whose coordinate has a leading zero byte
			}
			if c.short != "" && n == "r0" {
				k = fx.ShortCoordKeyN(c.kt, c.short, 1)
			}
			keys[n] = k
			j, err := libJWK(k, nonce)
			if err != nil {
				fail("lib-jwk-error", err.Error())
				return
			}
			jwks[n] = j
			cm, err := commitment.GetCommitment(j, c.code)
			if err != nil || cm != fx.CommitN(k, c.code, nonce) {
				fail("commitment-mismatch", fmt.Sprintf("GetCommitment(%s)=%s err=%v, independent %s", n, cm, err, fx.CommitN(k, c.code, nonce)))
				return
			}
			commits[n] = cm
		}
		// ---- documents
		docKey := fx.KeyEntry("key1", fx.NewKey(fx.P256, "c11/doc"), []interface{}{"authentication"})
		d0 := map[string]interface{}{"publicKey": []interface{}{docKey}, "service": []interface{}{fx.ServiceEntry("svc1", "https://example.com/1")},
			"alsoKnownAs": []interface{}{"https://alias.example"}, "other": map[string]interface{}{"x": []interface{}{1.0, "two"}}}
		d0Patches := []interface{}{map[string]interface{}{"action": "add-public-keys", "publicKeys": []interface{}{docKey}}, fx.AddServicePatch("svc1", "https://example.com/1")}
		d0FromPatches, _ := doc.ApplyAll(doc.Doc{}, d0Patches)
		expect0 := doc.Doc(d0)
		ci := &client.CreateRequestInfo{RecoveryCommitment: commits["r0"], UpdateCommitment: commits["u0"], AnchorOrigin: origins[c.origin], MultihashCode: c.code}
		if c.opaque {
			ci.OpaqueDocument = string(mustJSON(d0))
		} else {
			ci.Patches = toPatches(d0Patches)
			expect0 = d0FromPatches
		}
		createReq, err := client.NewCreateRequest(ci)
		if err != nil {
			fail("builder-error:create", err.Error())
			return
		}
		cop, err := ver.Parser.Parse("did:sidetree", createReq)
		if err != nil {
			fail("built-request-rejected:create", err.Error())
			return
		}
		if len(originSpy.seen) != 1 || !jsonEq(originSpy.seen[0], origins[c.origin]) {
			fail("origin-validator:create", fmt.Sprintf("the configured anchor-origin validator saw %v at create intake, want exactly [%v]", originSpy.seen, origins[c.origin]))
		}
		originSpy.seen = nil
		suffix := cop.UniqueSuffix
		var ctree map[string]interface{}
		_ = json.Unmarshal(createReq, &ctree)
		sd, _ := ctree["suffixData"].(map[string]interface{})
		dl, _ := ctree["delta"].(map[string]interface{})
		if sd == nil || dl == nil || sd["recoveryCommitment"] != commits["r0"] || dl["updateCommitment"] != commits["u0"] || !jsonEq(sd["anchorOrigin"], origins[c.origin]) ||
			suffix != fx.ModelHash(c.code, sd) || sd["deltaHash"] != fx.ModelHash(c.code, dl) {
			fail("create-parse-back", "create request does not carry the supplied commitments / origin or its hashes are not the independent ones")
		}
		// ---- update
		// the patch list is an ordered program: the same patch occurs twice (add, remove, add again) and must arrive verbatim
		updPatches := []interface{}{fx.AddServicePatch("svc2", "https://example.com/2?a=1&b=<x>"), map[string]interface{}{"action": "remove-services", "ids": []interface{}{"svc2"}},
			fx.AddServicePatch("svc2", "https://example.com/2?a=1&b=<x>"), map[string]interface{}{"action": "remove-services", "ids": []interface{}{"svc1"}}}
		rv0, _ := commitment.GetRevealValue(jwks["u0"], c.code)
		ureq, err := client.NewUpdateRequest(&client.UpdateRequestInfo{DidSuffix: suffix, Patches: toPatches(updPatches), UpdateCommitment: commits["u1"],
			UpdateKey: jwks["u0"], MultihashCode: c.code, Signer: libSigner(keys["u0"], kid), RevealValue: rv0, AnchorFrom: from, AnchorUntil: until})
		if err != nil {
			fail("builder-error:update", err.Error())
			return
		}
		mop, err := ver.Parser.ParseOperation("did:sidetree", ureq, false)
		if err != nil {
			fail("built-request-rejected:update", err.Error())
			return
		}
		usd, err := ver.Parser.ParseSignedDataForUpdate(mop.SignedData)
		if err != nil || mop.UniqueSuffix != suffix || mop.RevealValue != fx.RevealN(keys["u0"], c.code, nonce) || mop.Delta.UpdateCommitment != commits["u1"] ||
			!jsonEq(mop.Delta.Patches, updPatches) || usd.AnchorFrom != from || usd.AnchorUntil != until || *usd.UpdateKey != *jwks["u0"] ||
			usd.DeltaHash != fx.ModelHash(c.code, fx.Delta(commits["u1"], updPatches)) {
			fail("update-parse-back", fmt.Sprintf("update does not parse back to the supplied values (err=%v)", err))
		}
		// ---- recover
		d1 := map[string]interface{}{"service": []interface{}{fx.ServiceEntry("svc9", "https://example.com/9")}, "publicKey": []interface{}{docKey}}
		d1Patches := []interface{}{map[string]interface{}{"action": "replace", "document": map[string]interface{}{"publicKeys": []interface{}{docKey}, "services": []interface{}{fx.ServiceEntry("svc9", "https://example.com/9")}}}}
		rvr, _ := commitment.GetRevealValue(jwks["r0"], c.code)
		r0Signer := libSigner(keys["r0"], kid)        // one signer object for both requests signed with the recovery key
		rorigin := origins[(c.origin+1)%len(origins)] // the recover moves the DID to another anchor origin
		ri := &client.RecoverRequestInfo{DidSuffix: suffix, RecoveryKey: jwks["r0"], RecoveryCommitment: commits["r1"], UpdateCommitment: commits["u2"], AnchorOrigin: rorigin,
			AnchorFrom: from, AnchorUntil: until, MultihashCode: c.code, Signer: r0Signer, RevealValue: rvr}
		if c.opaque {
			ri.OpaqueDocument = string(mustJSON(d1))
		} else {
			ri.Patches = toPatches(d1Patches)
		}
		rreq, err := client.NewRecoverRequest(ri)
		if err != nil {
			fail("builder-error:recover", err.Error())
			return
		}
		rop, err := ver.Parser.ParseOperation("did:sidetree", rreq, false)
		if err != nil {
			fail("built-request-rejected:recover", err.Error())
			return
		}
		if len(originSpy.seen) != 1 || !jsonEq(originSpy.seen[0], rorigin) {
			fail("origin-validator:recover", fmt.Sprintf("the configured anchor-origin validator saw %v at recover intake, want exactly [%v]", originSpy.seen, rorigin))
		}
		originSpy.seen = nil
		rsd, err := ver.Parser.ParseSignedDataForRecover(rop.SignedData)
		if err != nil || rop.UniqueSuffix != suffix || rop.RevealValue != fx.RevealN(keys["r0"], c.code, nonce) || rop.Delta.UpdateCommitment != commits["u2"] ||
			rsd.RecoveryCommitment != commits["r1"] || rsd.AnchorFrom != from || rsd.AnchorUntil != until || *rsd.RecoveryKey != *jwks["r0"] || !jsonEq(rsd.AnchorOrigin, rorigin) {
			fail("recover-parse-back", fmt.Sprintf("recover does not parse back to the supplied values (err=%v)", err))
		}
		// ---- deactivate
		dreq, err := client.NewDeactivateRequest(&client.DeactivateRequestInfo{DidSuffix: suffix, RecoveryKey: jwks["r0"], Signer: r0Signer, RevealValue: rvr, AnchorFrom: from, AnchorUntil: until})
		if err != nil {
			fail("builder-error:deactivate", err.Error())
			return
		}
		dop, err := ver.Parser.ParseOperation("did:sidetree", dreq, false)
		if err != nil {
			fail("built-request-rejected:deactivate", err.Error())
			return
		}
		dsd, err := ver.Parser.ParseSignedDataForDeactivate(dop.SignedData)
		if err != nil || dop.UniqueSuffix != suffix || dsd.DidSuffix != suffix || dsd.AnchorFrom != from || dsd.AnchorUntil != until || *dsd.RecoveryKey != *jwks["r0"] {
			fail("deactivate-parse-back", fmt.Sprintf("deactivate does not parse back (err=%v)", err))
		}
		// ---- exact fit: each built request with a delta is accepted by a protocol whose operation-size and delta-size limits
		// are exactly the request's size and its canonical delta's size (the update's delta contains & < >, which some JSON
		// encoders escape and the canonical form does not)
		for _, br := range []struct {
			name string
			req  []byte
		}{{"create", createReq}, {"update", ureq}, {"recover", rreq}} {
			var t map[string]interface{}
			if json.Unmarshal(br.req, &t) != nil || t["delta"] == nil {
				continue
			}
			pfit := ver.P
			pfit.MaxOperationSize = uint(len(br.req))
			pfit.MaxDeltaSize = uint(len(jcs.MustCanon(t["delta"])))
			if _, e := operationparser.New(pfit).Parse("did:sidetree", br.req); e != nil {
				fail("built-request-rejected-at-exact-limits:"+br.name, fmt.Sprintf("request of %d bytes with a canonical delta of %d bytes refused under limits equal to these sizes: %v", pfit.MaxOperationSize, pfit.MaxDeltaSize, e))
			}
			r.Eval()
		}
		// ---- effect
		mk := func(id string, typ operation.Type, req []byte) *fx.PoolOp {
			return &fx.PoolOp{ID: id, Type: typ, Req: req}
		}
		cp := fx.Placed{Op: mk("C", operation.TypeCreate, createReq), Time: T - 1, Num: 0, Published: true}
		type scenario struct {
			name   string
			placed []fx.Placed
			doc    doc.Doc
			upd    string
			rec    string
			deact  bool
		}
		afterUpd, _ := doc.ApplyAll(expect0, updPatches)
		rdoc := doc.Doc(d1)
		if !c.opaque {
			rdoc, _ = doc.ApplyAll(doc.Doc{}, d1Patches)
		}
		scs := []scenario{
			{"create", []fx.Placed{cp}, expect0, commits["u0"], commits["r0"], false},
			{"create+update", []fx.Placed{cp, {Op: mk("U", operation.TypeUpdate, ureq), Time: T, Num: 1, Published: true}}, afterUpd, commits["u1"], commits["r0"], false},
			{"create+recover", []fx.Placed{cp, {Op: mk("R", operation.TypeRecover, rreq), Time: T, Num: 1, Published: true}}, rdoc, commits["u2"], commits["r1"], false},
			{"create+update+recover", []fx.Placed{cp, {Op: mk("U", operation.TypeUpdate, ureq), Time: T, Num: 1, Published: true}, {Op: mk("R", operation.TypeRecover, rreq), Time: T + 1, Num: 0, Published: true}}, rdoc, commits["u2"], commits["r1"], false},
			{"create+deactivate", []fx.Placed{cp, {Op: mk("D", operation.TypeDeactivate, dreq), Time: T, Num: 1, Published: true}}, doc.Doc{}, "", "", true},
		}
		// an update built for the key the recover commits to, anchored after the recover in the same transaction time, with
		// transaction numbers that are not monotone across times (the create's number is the largest)
		if rv2, e := commitment.GetRevealValue(jwks["u2"], c.code); e == nil {
			upd2 := []interface{}{fx.AddServicePatch("svc3", "https://example.com/3")}
			ureq2, e2 := client.NewUpdateRequest(&client.UpdateRequestInfo{DidSuffix: suffix, Patches: toPatches(upd2), UpdateCommitment: commits["u1"],
				UpdateKey: jwks["u2"], MultihashCode: c.code, Signer: libSigner(keys["u2"], kid), RevealValue: rv2, AnchorFrom: from, AnchorUntil: until})
			if e2 != nil {
				fail("builder-error:update-after-recover", e2.Error())
			} else if _, e3 := ver.Parser.Parse("did:sidetree", ureq2); e3 != nil {
				fail("built-request-rejected:update-after-recover", e3.Error())
			} else {
				after2, _ := doc.ApplyAll(rdoc, upd2)
				cpHigh := cp
				cpHigh.Num = 5
				scs = append(scs, scenario{"create+recover+update-same-time", []fx.Placed{cpHigh, {Op: mk("R", operation.TypeRecover, rreq), Time: T, Num: 1, Published: true},
					{Op: mk("U2", operation.TypeUpdate, ureq2), Time: T, Num: 3, Published: true}}, after2, commits["u1"], commits["r1"], false})
			}
		}
		// requests applied to a live DID whose document is EMPTY: a recover anchored outside its own window leaves no document but
		// advances both commitments (u2 / r1); the update built for u2 and a deactivate built for r1 then take effect as intended
		{
			lateRI := *ri
			lateRI.AnchorFrom, lateRI.AnchorUntil = T+10, T+20
			lateRI.Signer = libSigner(keys["r0"], kid)
			rreqLate, e1 := client.NewRecoverRequest(&lateRI)
			rv1, _ := commitment.GetRevealValue(jwks["r1"], c.code)
			dreq1, e2 := client.NewDeactivateRequest(&client.DeactivateRequestInfo{DidSuffix: suffix, RecoveryKey: jwks["r1"], Signer: libSigner(keys["r1"], kid), RevealValue: rv1, AnchorFrom: from, AnchorUntil: until})
			rv2, _ := commitment.GetRevealValue(jwks["u2"], c.code)
			upd3 := []interface{}{fx.AddServicePatch("svc4", "https://example.com/4")}
			ureq3, e3 := client.NewUpdateRequest(&client.UpdateRequestInfo{DidSuffix: suffix, Patches: toPatches(upd3), UpdateCommitment: commits["u1"],
				UpdateKey: jwks["u2"], MultihashCode: c.code, Signer: libSigner(keys["u2"], kid), RevealValue: rv2, AnchorFrom: from, AnchorUntil: until})
			if e1 != nil || e2 != nil || e3 != nil {
				fail("builder-error:empty-document-scenarios", fmt.Sprintf("%v / %v / %v", e1, e2, e3))
			} else {
				late := fx.Placed{Op: mk("Rlate", operation.TypeRecover, rreqLate), Time: T, Num: 1, Published: true}
				after3, _ := doc.ApplyAll(doc.Doc{}, upd3)
				scs = append(scs,
					scenario{"create+recover-outside-window", []fx.Placed{cp, late}, doc.Doc{}, commits["u2"], commits["r1"], false},
					scenario{"create+recover-outside-window+update", []fx.Placed{cp, late, {Op: mk("U3", operation.TypeUpdate, ureq3), Time: T, Num: 2, Published: true}}, after3, commits["u1"], commits["r1"], false},
					scenario{"create+recover-outside-window+deactivate", []fx.Placed{cp, late, {Op: mk("D1", operation.TypeDeactivate, dreq1), Time: T, Num: 2, Published: true}}, doc.Doc{}, "", "", true})
			}
		}
		for _, sc := range scs {
			if c.window >= 3 && sc.name == "create+update+recover" {
				continue // its recover is anchored one second later, outside a window that ends at T
			}
			rm, err := ResolveImpl(cl, suffix, sc.placed)
			r.Eval()
			r.State()
			r.Trans(int64(len(sc.placed)))
			r.Trace(1)
			if err != nil {
				fail("effect:"+sc.name, "resolution failed: "+err.Error())
				continue
			}
			got := ProjectImpl(rm, nil)
			if got.Doc != doc.Norm(sc.doc) || got.Upd != sc.upd || got.Rec != sc.rec || got.Deact != sc.deact {
				fail("effect:"+sc.name, fmt.Sprintf("state after %s differs from the intended one\n  got : %s\n  want: doc=%s upd=%s rec=%s deact=%v", sc.name, got.Core(), doc.Norm(sc.doc), short(sc.upd), short(sc.rec), sc.deact))
			}
			wantOrigin := origins[c.origin]
			if strings.HasSuffix(sc.name, "recover") {
				wantOrigin = rorigin
			}
			if strings.HasPrefix(sc.name, "create+recover+update") || strings.HasPrefix(sc.name, "create+recover-outside-window") {
				wantOrigin = rorigin
			}
			if !sc.deact && !jsonEq(rm.AnchorOrigin, wantOrigin) {
				fail("effect-origin:"+sc.name, fmt.Sprintf("anchor origin %v, want %v", rm.AnchorOrigin, wantOrigin))
			}
			r.Outcome(sc.name)
		}
		_ = sidetree.DeltaOK
		r.Nontrivial(caseID)
		r.Sample(caseID)
	})
	r.Extra["configurations"] = len(cfgs)
	r.Assumptions = append(r.Assumptions, "anchoring time T=1000 inside every supplied window; the opaque document round trip is compared modulo absent/empty sections", "ECDSA signatures by the library's signer use crypto/rand; nothing compared depends on signature bytes")
}
