package props

import (
	"fmt"
	"sort"
	"strings"

	"verif/mc/fx"
	"verif/mc/hx"
)

func init() { register("C01", c01) }

// legitimate chains (every member is applied by the reference model; checked at run time)
var c01Chains = [][]string{
	{"C"}, {"C", "U01"}, {"C", "U01", "U12"}, {"C", "U01", "U12", "U23"}, {"C", "U01b", "U1b2"},
	{"C", "U01i"}, {"C", "U01~p"}, {"C", "U01~w", "U12"}, {"C", "U01x", "U12"},
	{"C", "R01"}, {"C", "R01", "V01"}, {"C", "R01", "V0>r0"}, {"C", "R01", "R12"}, {"C", "R01", "R12", "W01"}, {"C", "R01b", "V0b1"},
	{"C", "U01", "R01"}, {"C", "U01", "R01", "V01"}, {"C", "R01~w"}, {"C", "R01~h"}, {"C", "R01~a"},
	{"C", "D0"}, {"C", "U01", "D0"}, {"C", "R01", "D1"}, {"C", "R01", "V01", "D1"},
}

func c01(r *hx.Run) {
	fx.Quiet()
	client, v := stdClient()
	delta := v.P.MaxOperationTimeDelta
	r.Rule = "for every legitimate chain L (24 chains of <=4 operations, anchored at times 2,4,6,8) and every multiset X of <=2 (thorough <=3 for update chains) unauthorised operations / duplicate creates placed at every anchoring slot (before, same time smaller/larger number, after each legitimate operation) and both store orders, resolve L and L+X on the real processor and require identical results (metamorphic). Non-trivial: X contains an operation that parses and reveals the commitment in force at some point of L. A further section makes every single protocol-version lookup of the resolution fail in turn for short chains on a valid / invalid create plus each forged operation: error, or the fault-free result of the chain minus at most one of its own operations."
	type poolKT struct {
		kt   string
		full bool
	}
	pls := []poolKT{{fx.Ed25519, true}, {fx.P256, false}, {fx.P384, false}, {fx.P521, false}, {fx.Secp256k1, false}}
	kindsGrouped := map[string]int64{}
	for _, pk := range pls {
		pool := fx.NewPool(pk.kt, fx.SHA256, "ok")
		forged := opIDs(pool, func(o *fx.PoolOp) bool { return o.Kind != "legit" && o.Kind != "control" })
		controls := opIDs(pool, func(o *fx.PoolOp) bool { return o.Kind == "control" })
		controlOK := map[string]bool{}
		defer func(kt string, controls []string, controlOK map[string]bool) {
			for _, cid := range controls {
				if (strings.Contains(cid, "(U01)") || strings.Contains(cid, "(R01)") || strings.Contains(cid, "(D0)")) && !controlOK[cid] {
					panic(fmt.Sprintf("vacuity: positive control %s (%s) never changed a resolution result", cid, kt))
				}
			}
		}(pk.kt, controls, controlOK)
		for ci, chain := range c01Chains {
			if r.OverBudget() {
				break
			}
			var L []fx.Placed
			for i, id := range chain {
				L = append(L, fx.Placed{Op: pool.Get(id), Time: uint64(2 + 2*i), Num: 1, Published: true})
			}
			// the chain must be legitimate: every member applied by the reference
			st, err := ResolveModel(L, nil, delta)
			if err != nil || st.Applied[len(st.Applied)-1] != chain[len(chain)-1] {
				panic(fmt.Sprintf("chain %v: last operation is not applied by the reference: %v %v", chain, st, err))
			}
			live := map[string]bool{}
			for _, c := range st.Consumed {
				live[c] = true
			}
			live[st.Upd], live[st.Rec] = true, true
			rmL, errL := ResolveImpl(client, pool.Suffix, L)
			base := ProjectImpl(rmL, errL)
			if base != ProjectModel(st, err) {
				r.Violation("chain-mismatch:"+opSet(L), fmt.Sprintf("%s|chain%d", pk.kt, ci), "legitimate chain resolves differently from the reference (see C03)\n  impl: "+base.String(), nil)
				continue
			}
			// non-vacuity: the chain changes state relative to its prefix
			if len(L) > 1 {
				rmP, errP := ResolveImpl(client, pool.Suffix, L[:len(L)-1])
				if ProjectImpl(rmP, errP) == base {
					panic(fmt.Sprintf("chain %v: last operation does not change state", chain))
				}
			}
			// positive controls: the hostile content, properly signed, anchored before everything else changes the result
			for _, cid := range controls {
				co := pool.Get(cid)
				if co.Abs.Reveals != st.Rec && !(co.Type == "update" && co.Abs.Reveals == pool.Get("C").Abs.NextUpdate) && co.Abs.Reveals != pool.Get("C").Abs.NextRecovery {
					continue
				}
				withC := append([]fx.Placed{{Op: co, Time: 3, Num: 0, Published: true}}, L...)
				rmC, errC := ResolveImpl(client, pool.Suffix, withC)
				if ProjectImpl(rmC, errC) != base {
					controlOK[cid] = true
				}
			}
			// slots
			var slots []Coord
			slots = append(slots, Coord{1, 0})
			for i := range L {
				t := uint64(2 + 2*i)
				slots = append(slots, Coord{t, 0}, Coord{t, 2}, Coord{t + 1, 0})
			}
			repSlots := []Coord{{1, 0}, {uint64(2 + 2*(len(L)-1)), 0}, {3, 0}, {uint64(3 + 2*(len(L)-1)), 0}}
			type job struct {
				x []fx.Placed
			}
			var jobs []job
			for _, f := range forged {
				for _, s := range slots {
					jobs = append(jobs, job{[]fx.Placed{{Op: pool.Get(f), Time: s.T, Num: s.N, Published: true}}})
				}
			}
			var groupedOps []string
			for _, f := range forged {
				o := pool.Get(f)
				if (o.Abs.ParseOK && live[o.Abs.Reveals]) || o.Type == "create" {
					groupedOps = append(groupedOps, f)
				}
			}
			if pk.full {
				pairAlpha := forged
				if r.Tier == "quick" {
					pairAlpha = groupedOps
				}
				for i, f := range pairAlpha {
					for _, g := range pairAlpha[i:] {
						for _, s1 := range repSlots {
							for _, s2 := range repSlots {
								if s1 == s2 {
									continue
								}
								jobs = append(jobs, job{[]fx.Placed{
									{Op: pool.Get(f), Time: s1.T, Num: s1.N, Published: true},
									{Op: pool.Get(g), Time: s2.T, Num: s2.N + 3, Published: true}}})
							}
						}
					}
				}
				if r.Tier == "thorough" && len(L) <= 3 {
					// triples over the forged operations that are grouped under a live commitment, two representative slots
					var grouped []string
					for _, f := range forged {
						o := pool.Get(f)
						if (o.Abs.ParseOK && live[o.Abs.Reveals]) || o.Type == "create" {
							grouped = append(grouped, f)
						}
					}
					two := []Coord{{1, 0}, {uint64(2 + 2*(len(L)-1)), 0}}
					for i, f := range grouped {
						for j, g := range grouped[i:] {
							for _, h := range grouped[i+j:] {
								for _, s1 := range two {
									for _, s2 := range two {
										jobs = append(jobs, job{[]fx.Placed{
											{Op: pool.Get(f), Time: s1.T, Num: s1.N + 3, Published: true},
											{Op: pool.Get(g), Time: s2.T, Num: s2.N + 4, Published: true},
											{Op: pool.Get(h), Time: s2.T + 1, Num: 5, Published: true}}})
									}
								}
							}
						}
					}
				}
			}
			tag := fmt.Sprintf("%s|chain%d", pk.kt, ci)
			hx.ParallelFor(len(jobs), func(ji int) {
				x := jobs[ji].x
				orders := 2
				if !pk.full {
					orders = 1 // other key types: forged operations first in the store only (both orders for Ed25519)
				}
				for order := 0; order < orders; order++ {
					var all []fx.Placed
					if order == 0 {
						all = append(append(all, x...), L...)
					} else {
						all = append(append(all, L...), x...)
					}
					caseID := fmt.Sprintf("%s|%d|%s", tag, order, HistKey(x))
					if !r.Want(caseID) {
						continue
					}
					// duplicate creates are only in scope when anchored after the first create
					skip := false
					for _, pl := range x {
						if pl.Op.Type == "create" && (pl.Time < 2 || (pl.Time == 2 && pl.Num < 1)) {
							skip = true
						}
					}
					if skip {
						continue
					}
					done := r.Watch(caseID)
					rm, err := ResolveImpl(client, pool.Suffix, all)
					done()
					got := ProjectImpl(rm, err)
					r.Eval()
					r.State()
					r.Trans(int64(len(x)))
					r.Trace(1)
					nontriv := false
					for _, pl := range x {
						if (pl.Op.Abs.ParseOK && live[pl.Op.Abs.Reveals]) || pl.Op.Type == "create" {
							nontriv = true
							r.Outcome("grouped-under-live-commitment:" + pl.Op.Kind)
						} else {
							r.Outcome("not-grouped:" + pl.Op.Kind)
						}
					}
					if nontriv {
						r.Nontrivial(tag + HistKey(x))
					}
					if got != base {
						var kinds []string
						for _, pl := range x {
							kinds = append(kinds, pl.Op.Kind+"/"+string(pl.Op.Type))
						}
						sort.Strings(kinds)
						r.Violation(fmt.Sprintf("unauthorised-changes-state:%v:%s", kinds, diffFields(got, base)), caseID,
							fmt.Sprintf("chain %v (%s) + unauthorised %v, store order %d\n  with   : %s\n  without: %s", chain, pk.kt, placedDesc(x), order, got, base),
							map[string]interface{}{"chain": chain, "added": placedDesc(x), "order": order})
					}
				}
				r.Sample(map[string]interface{}{"chain": chain, "added": placedDesc(x)})
			})
		}
	}
	_ = kindsGrouped
	r.Extra["positive_controls_effective"] = "see assumptions"
	// ---- a failing protocol-version lookup does not let an unauthorised operation in: for short chains on a valid and on an invalid
	// create (no update commitment in force) and every forged operation, every single lookup of the resolution fails in turn; the
	// result is an error or the fault-free result of the chain with at most one of ITS operations left out
	for _, variant := range []string{"ok", "invalid"} {
		pool := fx.NewPool(fx.Ed25519, fx.SHA256, variant)
		forged := opIDs(pool, func(o *fx.PoolOp) bool { return o.Kind != "legit" && o.Kind != "control" && o.Type != "create" })
		for ci, chain := range [][]string{{"C"}, {"C", "U01"}, {"C", "R01", "V01"}} {
			var L []fx.Placed
			for i, id := range chain {
				L = append(L, fx.Placed{Op: pool.Get(id), Time: uint64(2 + 2*i), Num: 1, Published: true})
			}
			allowed := map[Result]bool{}
			for leave := -1; leave < len(L); leave++ {
				var h []fx.Placed
				for i, pl := range L {
					if i != leave {
						h = append(h, pl)
					}
				}
				allowed[ProjectImpl(ResolveImpl(client, pool.Suffix, h))] = true
			}
			hx.ParallelFor(len(forged), func(fi int) {
				for si, slot := range []Coord{{3, 0}, {7, 0}} {
					caseID := fmt.Sprintf("flaky|%s|chain%d|%s|slot%d", variant, ci, forged[fi], si)
					if !r.Want(caseID) {
						continue
					}
					all := append([]fx.Placed{{Op: pool.Get(forged[fi]), Time: slot.T, Num: slot.N, Published: true}}, L...)
					r.State()
					r.Nontrivial(caseID)
					flakySweep(r, "unauthorised-changes-state-after-failed-lookup:"+variant, caseID, client, pool.Suffix, all, allowed, 3*len(all)+3)
				}
			})
		}
	}
	r.Assumptions = append(r.Assumptions,
		"the compared result includes metadata fields (version id, references, times) in addition to document, commitments and deactivation flag",
		"pairs use 4 representative slots per member (before all, same time as / right after the last legitimate operation, between); singletons use every slot")
}
