package props

import (
	"fmt"
	"sort"
	"strings"
	"sync"
	"time"

	"github.com/trustbloc/sidetree-core-go/pkg/api/operation"
	"github.com/trustbloc/sidetree-core-go/pkg/api/protocol"
	"github.com/trustbloc/sidetree-core-go/pkg/api/txn"
	"github.com/trustbloc/sidetree-core-go/pkg/batch"
	"github.com/trustbloc/sidetree-core-go/pkg/batch/opqueue"
	"github.com/trustbloc/sidetree-core-go/pkg/dochandler"
	"github.com/trustbloc/sidetree-core-go/pkg/observer"
	"github.com/trustbloc/sidetree-core-go/pkg/processor"
	"github.com/trustbloc/sidetree-core-go/pkg/versions/1_0/txnprocessor"

	"verif/mc/fx"
	"verif/mc/hx"
)

func init() { register("C15", c15) }

type c15Ledger struct{ ch chan []txn.SidetreeTxn }

func (l *c15Ledger) RegisterForSidetreeTxn() <-chan []txn.SidetreeTxn { return l.ch }

// sentinelProvider signals when the observer looks up the sentinel namespace.
type sentinelProvider struct {
	inner protocol.ClientProvider
	done  chan struct{}
}

func (s *sentinelProvider) ForNamespace(ns string) (protocol.Client, error) {
	if ns == "sentinel" {
		s.done <- struct{}{}
		return nil, fmt.Errorf("sentinel")
	}
	return s.inner.ForNamespace(ns)
}

type failingUnpub struct {
	mu      sync.Mutex
	fail    bool
	deleted [][]string
}

func (u *failingUnpub) DeleteAll(ops []*operation.AnchoredOperation) error {
	u.mu.Lock()
	defer u.mu.Unlock()
	if u.fail {
		return fmt.Errorf("injected unpublished-store failure")
	}
	var s []string
	for _, o := range ops {
		s = append(s, o.UniqueSuffix)
	}
	u.deleted = append(u.deleted, s)
	return nil
}

type c15Txn struct {
	name     string
	t        txn.SidetreeTxn
	suffixes []string // expected stored suffixes (ok transactions only)
	types    map[string]operation.Type
}

type stubProvider struct {
	ops []*operation.AnchoredOperation
}

func (s *stubProvider) GetTxnOperations(*txn.SidetreeTxn) ([]*operation.AnchoredOperation, error) {
	out := make([]*operation.AnchoredOperation, len(s.ops))
	for i, o := range s.ops {
		c := *o
		out[i] = &c
	}
	return out, nil
}

func c15(r *hx.Run) {
	fx.Quiet()
	r.Rule = "every sequence of <=4 (thorough 5) transactions over {ok(A: s1,s2), ok(B: s2,s3), bad anchor string, missing CAS content, count mismatch, duplicate suffix across index files, unknown namespace, unknown protocol version} x store-failure position {none, 1st..3rd Put} x unpublished-store failure x delivery {one notification per transaction, all in one} is processed by the real Observer + TxnProcessor + OperationProvider; the harness store must hold exactly one operation per suffix of every stored transaction, stamped with that transaction's time, number, protocol version, canonical and equivalent references, written by a single Put; failing transactions contribute nothing and do not stop later ones. Intake: a real DocumentHandler with queue / unpublished-store failures on the k-th call leaves both untouched after any refused or failed request; the same through the real batch.Writer over a real queue, stopped before a chosen step and with the queue failing at a chosen Add (a submission refused by a stopped writer must not be in the queue). Non-trivial: sequences containing at least one failing element followed by a valid transaction, or a fault."
	const ns = "did:sidetree"
	p := fx.DefaultProtocol()
	p.GenesisTime = 10
	dids := []*fx.DIDOps{fx.NewDIDOps(fx.Ed25519, fx.SHA256, "s1"), fx.NewDIDOps(fx.Ed25519, fx.SHA256, "s2"), fx.NewDIDOps(fx.P256, fx.SHA256, "s3")}
	cas := fx.NewMemCAS()
	hv := fx.NewVersion(p, &fx.VersionOpts{CAS: cas})
	prep := func(seq []qsym) string {
		var q []*operation.QueuedOperation
		for _, s := range seq {
			q = append(q, dids[s.did].Queued(s.key, ns))
		}
		info, err := hv.Handler.PrepareTxnFiles(q)
		if err != nil {
			panic(err)
		}
		return info.AnchorString
	}
	anchorA := prep([]qsym{{0, "C"}, {1, "U"}})
	anchorB := prep([]qsym{{1, "R"}, {2, "D"}})
	// duplicate suffix across core and provisional index: hand-made from batch (C1,U2) by renaming the update's suffix
	fsDup := buildFileSet("dup", p, dids, []qsym{{0, "C"}, {1, "U"}})
	dupTrees := map[string]interface{}{}
	for k, v := range fsDup.trees {
		dupTrees[k] = v
	}
	dupTrees["provIndex"] = setPath(fsDup.trees["provIndex"], []string{"operations", "update", "0", "didSuffix"}, dids[0].Suffix, false)
	dupCAS, anchorDup := fsDup.assemble(dupTrees, nil, 2)
	for a, b := range dupCAS.Data {
		cas.Put(a, b)
	}
	core := func(a string) string { return a[strings.Index(a, ".")+1:] }
	mkTxn := func(name, nspace, anchor string, pv uint64, sfx []int, types []operation.Type) c15Txn {
		t := c15Txn{name: name, types: map[string]operation.Type{}}
		t.t = txn.SidetreeTxn{Namespace: nspace, AnchorString: anchor, ProtocolVersion: pv}
		for i, s := range sfx {
			t.suffixes = append(t.suffixes, dids[s].Suffix)
			t.types[dids[s].Suffix] = types[i]
		}
		return t
	}
	alphabet := []c15Txn{
		mkTxn("okA", ns, anchorA, 10, []int{0, 1}, []operation.Type{operation.TypeCreate, operation.TypeUpdate}),
		mkTxn("okB", ns, anchorB, 10, []int{1, 2}, []operation.Type{operation.TypeRecover, operation.TypeDeactivate}),
		mkTxn("badAnchor", ns, "garbage", 10, nil, nil),
		mkTxn("casMissing", ns, "2.missing-address", 10, nil, nil),
		mkTxn("countMismatch", ns, "3."+core(anchorA), 10, nil, nil),
		mkTxn("dupSuffix", ns, anchorDup, 10, nil, nil),
		mkTxn("unknownNamespace", "did:other", anchorA, 10, nil, nil),
		mkTxn("unknownVersion", ns, anchorA, 5, nil, nil),
	}
	maxLen := 4
	if r.Tier == "thorough" {
		maxLen = 5
	}
	var seqs [][]int
	for l := 1; l <= maxLen; l++ {
		tuples(len(alphabet), l, func(idx []int) { seqs = append(seqs, append([]int(nil), idx...)) })
	}
	type job struct {
		seq     []int
		failPut int
		failDel bool
		mode    int
		types   int // index into unpubTypeSets
	}
	unpubTypeSets := [][]operation.Type{
		{operation.TypeCreate, operation.TypeUpdate, operation.TypeRecover, operation.TypeDeactivate},
		{operation.TypeUpdate, operation.TypeDeactivate}, // strict subset: a create / recover precedes an unpublished type in both batches
		{operation.TypeCreate},
	}
	var jobs []job
	for _, s := range seqs {
		for fp := 0; fp <= 3; fp++ {
			for _, fd := range []bool{false, true} {
				for mode := 0; mode < 2; mode++ {
					jobs = append(jobs, job{s, fp, fd, mode, 0})
					if len(s) <= 2 || (len(s) == 3 && r.Tier == "thorough") {
						jobs = append(jobs, job{s, fp, fd, mode, 1}, job{s, fp, fd, mode, 2})
					}
				}
			}
		}
	}
	hx.ParallelFor(len(jobs), func(ji int) {
		j := jobs[ji]
		var names []string
		for _, i := range j.seq {
			names = append(names, alphabet[i].name)
		}
		caseID := fmt.Sprintf("obs|%s|failPut=%d|failDel=%v|mode=%d|types=%d", strings.Join(names, ","), j.failPut, j.failDel, j.mode, j.types)
		if !r.Want(caseID) {
			return
		}
		store := fx.NewStore()
		store.FailPut = func(n int) bool { return n == j.failPut }
		unpub := &failingUnpub{fail: j.failDel}
		ver := fx.NewVersion(p, &fx.VersionOpts{CAS: cas, Store: store, TxnProcOpts: []txnprocessor.Option{
			txnprocessor.WithUnpublishedOperationStore(unpub, unpubTypeSets[j.types])}})
		client := fx.NewClient(ver)
		ledger := &c15Ledger{ch: make(chan []txn.SidetreeTxn, 8)}
		sp := &sentinelProvider{inner: fx.ClientProvider{ns: client}, done: make(chan struct{}, 1)}
		obs := observer.New(&observer.Providers{Ledger: ledger, ProtocolClientProvider: sp})
		obs.Start()
		var txns []txn.SidetreeTxn
		for k, i := range j.seq {
			t := alphabet[i].t
			t.TransactionTime = uint64(100 + k)
			t.TransactionNumber = uint64(7 - k) // non-monotone numbers
			t.CanonicalReference = fmt.Sprintf("canon-%d", k)
			// the equivalent references are passed through as they are: disjoint from the canonical one, containing it (first /
			// last / only), or empty
			switch k % 4 {
			case 0:
				t.EquivalentReferences = []string{fmt.Sprintf("eq1-%d", k), fmt.Sprintf("eq2-%d", k)}
			case 1:
				t.EquivalentReferences = []string{t.CanonicalReference, fmt.Sprintf("eq1-%d", k)}
			case 2:
				t.EquivalentReferences = []string{fmt.Sprintf("eq1-%d", k), t.CanonicalReference, t.CanonicalReference}
			case 3:
				t.EquivalentReferences = []string{t.CanonicalReference}
			}
			txns = append(txns, t)
		}
		done := r.Watch(caseID)
		if j.mode == 0 {
			for _, t := range txns {
				ledger.ch <- []txn.SidetreeTxn{t}
			}
		} else {
			ledger.ch <- txns
		}
		ledger.ch <- []txn.SidetreeTxn{{Namespace: "sentinel"}}
		<-sp.done
		obs.Stop()
		done()
		r.Eval()
		r.State()
		r.Trans(int64(len(txns)))
		r.Trace(1)
		// model
		putCalls := 0
		type want struct {
			k        int
			suffixes []string
			optional bool // stored-or-not both acceptable (unpublished-store failure after the write)
		}
		var wants []want
		for k, i := range j.seq {
			a := alphabet[i]
			if len(a.suffixes) == 0 {
				continue
			}
			putCalls++
			if putCalls == j.failPut {
				continue
			}
			wants = append(wants, want{k: k, suffixes: a.suffixes})
		}
		nontriv := j.failPut != 0 || j.failDel
		sawBad := false
		for _, i := range j.seq {
			if len(alphabet[i].suffixes) == 0 {
				sawBad = true
			} else if sawBad {
				nontriv = true
			}
		}
		if nontriv {
			r.Nontrivial(caseID)
		}
		fail := func(class, msg string) {
			r.Violation(class, caseID, fmt.Sprintf("transactions [%s] failPut=%d failDelete=%v mode=%d: %s", strings.Join(names, ","), j.failPut, j.failDel, j.mode, msg),
				map[string]interface{}{"sequence": names, "failPut": j.failPut, "failDel": j.failDel, "mode": j.mode})
		}
		if len(store.Puts) != len(wants) {
			fail("stored-transactions", fmt.Sprintf("%d successful store writes, want %d", len(store.Puts), len(wants)))
			return
		}
		for wi, w := range wants {
			put := store.Puts[wi]
			t := txns[w.k]
			var got []string
			for _, op := range put {
				got = append(got, op.UniqueSuffix)
				if op.TransactionTime != t.TransactionTime || op.TransactionNumber != t.TransactionNumber || op.ProtocolVersion != t.ProtocolVersion {
					fail("stamp:time-number-version", fmt.Sprintf("operation %s of transaction %d stamped %d/%d/%d, want %d/%d/%d", short(op.UniqueSuffix), w.k,
						op.TransactionTime, op.TransactionNumber, op.ProtocolVersion, t.TransactionTime, t.TransactionNumber, t.ProtocolVersion))
				}
				if op.CanonicalReference != t.CanonicalReference {
					fail("stamp:canonical-reference", fmt.Sprintf("operation %s of transaction %d has canonical reference %q, want %q", short(op.UniqueSuffix), w.k, op.CanonicalReference, t.CanonicalReference))
				}
				if strings.Join(op.EquivalentReferences, ",") != strings.Join(t.EquivalentReferences, ",") {
					fail("stamp:equivalent-references", fmt.Sprintf("operation %s of transaction %d has equivalent references %v, want %v", short(op.UniqueSuffix), w.k, op.EquivalentReferences, t.EquivalentReferences))
				}
				if op.Type != alphabet[j.seq[w.k]].types[op.UniqueSuffix] {
					fail("stored-type", fmt.Sprintf("operation %s stored as %s", short(op.UniqueSuffix), op.Type))
				}
			}
			ws := append([]string{}, w.suffixes...)
			sort.Strings(got)
			sort.Strings(ws)
			if strings.Join(got, ",") != strings.Join(ws, ",") {
				fail("stored-suffixes", fmt.Sprintf("transaction %d stored suffixes %v, want exactly one operation for each of %v", w.k, got, ws))
			}
		}
		// a transaction that could not be stored must not have removed anything from the unpublished store
		if !j.failDel && len(unpub.deleted) != len(wants) {
			fail("failed-transaction-touches-unpublished-store", fmt.Sprintf("%d unpublished-store deletions for %d stored transactions", len(unpub.deleted), len(wants)))
		}
		for di, d := range unpub.deleted {
			if di < len(wants) {
				got := append([]string{}, d...)
				var ws []string
				for _, sfx := range wants[di].suffixes {
					for _, ut := range unpubTypeSets[j.types] {
						if alphabet[j.seq[wants[di].k]].types[sfx] == ut {
							ws = append(ws, sfx)
						}
					}
				}
				sort.Strings(got)
				sort.Strings(ws)
				if strings.Join(got, ",") != strings.Join(ws, ",") {
					fail("unpublished-store-deletions", fmt.Sprintf("deletion %d removed %v, want %v", di, got, ws))
				}
			}
		}
		r.Outcome(fmt.Sprintf("stored=%d of %d", len(wants), len(j.seq)))
		r.Sample(caseID)
	})

	// duplicates returned by a provider must be dropped by the transaction processor
	for _, order := range [][]int{{0, 1, 0}, {0, 0}, {1, 0, 1, 0}, {0, 1, 2, 2, 1}} {
		caseID := fmt.Sprintf("stub-dup|%v", order)
		if !r.Want(caseID) {
			continue
		}
		var ops []*operation.AnchoredOperation
		for _, d := range order {
			ops = append(ops, &operation.AnchoredOperation{Type: operation.TypeUpdate, UniqueSuffix: dids[d].Suffix, OperationRequest: dids[d].Req["U"]})
		}
		store := fx.NewStore()
		tp := txnprocessor.New(&txnprocessor.Providers{OpStore: store, OperationProtocolProvider: &stubProvider{ops}})
		n, err := tp.Process(txn.SidetreeTxn{Namespace: ns, AnchorString: "x", TransactionTime: 3, TransactionNumber: 4, CanonicalReference: "c"})
		r.Eval()
		r.State()
		distinct := map[int]bool{}
		for _, d := range order {
			distinct[d] = true
		}
		if err != nil || n != len(distinct) || len(store.Puts) != 1 || len(store.Puts[0]) != len(distinct) {
			r.Violation("duplicate-suffix-stored", caseID, fmt.Sprintf("provider returned suffix order %v: processed=%d err=%v puts=%d", order, n, err, len(store.Puts)), nil)
		}
		r.Nontrivial(caseID)
	}

	// ---------- intake: refused or failed requests leave no trace
	c15Intake(r, p)
	r.Assumptions = append(r.Assumptions,
		"the harness operation store applies each Put atomically; 'single all-or-nothing write' is checked as exactly one successful Put per stored transaction containing all of its operations",
		"when the unpublished-store deletion fails after the write, the written operations are expected to stay (the statement only excludes traces of transactions that could not be read, parsed or stored)",
		"the observer goroutine is synchronised with a sentinel transaction; real time is not used as an oracle")
}

type intakeReq struct {
	name  string
	req   []byte
	valid bool
}

type failingWriter struct {
	mu     sync.Mutex
	n      int
	failAt int
	ops    []string
}

func (w *failingWriter) Add(op *operation.QueuedOperation, pv uint64) error {
	w.mu.Lock()
	defer w.mu.Unlock()
	w.n++
	if w.n == w.failAt {
		return fmt.Errorf("injected queue failure")
	}
	w.ops = append(w.ops, fmt.Sprintf("%s:%s:%d", op.Type, op.UniqueSuffix, pv))
	return nil
}

type modelUnpub struct {
	mu     sync.Mutex
	n      int
	failAt int
	ops    map[string]int
}

func (u *modelUnpub) key(op *operation.AnchoredOperation) string {
	return string(op.Type) + ":" + op.UniqueSuffix + ":" + hx.Short(string(op.OperationRequest))
}
func (u *modelUnpub) Put(op *operation.AnchoredOperation) error {
	u.mu.Lock()
	defer u.mu.Unlock()
	u.n++
	if u.n == u.failAt {
		return fmt.Errorf("injected unpublished put failure")
	}
	u.ops[u.key(op)]++
	return nil
}
func (u *modelUnpub) Delete(op *operation.AnchoredOperation) error {
	u.mu.Lock()
	defer u.mu.Unlock()
	if u.ops[u.key(op)] > 0 {
		u.ops[u.key(op)]--
		if u.ops[u.key(op)] == 0 {
			delete(u.ops, u.key(op))
		}
	}
	return nil
}
func (u *modelUnpub) snapshot() string {
	u.mu.Lock()
	defer u.mu.Unlock()
	var ks []string
	for k, n := range u.ops {
		ks = append(ks, fmt.Sprintf("%s x%d", k, n))
	}
	sort.Strings(ks)
	return strings.Join(ks, ";")
}

func c15Intake(r *hx.Run, p protocol.Protocol) {
	const ns = "did:sidetree"
	pool := fx.NewPool(fx.Ed25519, fx.SHA256, "ok")
	other := fx.NewDIDOps(fx.Ed25519, fx.SHA256, "intake-other")
	ver := fx.NewVersion(p, nil)
	client := fx.NewClient(ver)
	// published history: the pool DID is active; a second DID ("dead") is deactivated
	var pub fx.SliceStore
	pub = append(pub, fx.Placed{Op: pool.Get("C"), Time: 20, Num: 0, Published: true, Version: 10}.Anchored(pool.Suffix))
	deadPool := fx.NewPool(fx.Ed25519, fx.SHA256, "applyfails") // other suffix
	storeFor := func(suffix string) ([]*operation.AnchoredOperation, error) {
		switch suffix {
		case pool.Suffix:
			return pub.Get(suffix)
		case deadPool.Suffix:
			return fx.SliceStore{fx.Placed{Op: deadPool.Get("C"), Time: 20, Num: 0, Published: true, Version: 10}.Anchored(deadPool.Suffix),
				fx.Placed{Op: deadPool.Get("D0"), Time: 21, Num: 0, Published: true, Version: 10}.Anchored(deadPool.Suffix)}.Get(suffix)
		}
		return nil, fmt.Errorf("not found")
	}
	reqs := []intakeReq{
		{"create-valid", other.Req["C"], true},
		{"update-valid", pool.Get("U01").Req, true},
		{"recover-valid", pool.Get("R01").Req, true},
		{"deactivate-valid", pool.Get("D0").Req, true},
		{"update-unknown-did", other.Req["U"], false},
		{"update-deactivated-did", deadPool.Get("U01").Req, false},
		{"recover-deactivated-did", deadPool.Get("R01").Req, false},
		{"self-loop-update", pool.Get("U00").Req, false},
		{"garbage", []byte(`{"type":"update"`), false},
		{"create-invalid-delta", fx.NewPool(fx.Ed25519, fx.SHA256, "invalid").Get("C").Req, false},
		{"create-hash-mismatch", pool.Get("C~h").Req, false},
		{"create-delta-does-not-apply", fx.NewPool(fx.P256, fx.SHA256, "applyfails").Get("C").Req, false}, // valid delta, empty document: refused after validation
	}
	c15IntakeRealWriter(r, ns, client, func() *processor.OperationProcessor { return processor.New("verif", storeFunc(storeFor), client) }, append(append([]intakeReq{}, reqs[:5]...), reqs[8], reqs[len(reqs)-1]))
	allTypes := []operation.Type{operation.TypeCreate, operation.TypeUpdate, operation.TypeRecover, operation.TypeDeactivate}
	for seqLen := 1; seqLen <= 2; seqLen++ {
		tuples(len(reqs), seqLen, func(idx []int) {
			for failAdd := 0; failAdd <= seqLen; failAdd++ {
				for failPut := 0; failPut <= seqLen; failPut++ {
					for _, withUnpub := range []bool{true, false} {
						var names []string
						for _, i := range idx {
							names = append(names, reqs[i].name)
						}
						caseID := fmt.Sprintf("intake|%s|failAdd=%d|failPut=%d|unpub=%v", strings.Join(names, ","), failAdd, failPut, withUnpub)
						if !r.Want(caseID) {
							continue
						}
						w := &failingWriter{failAt: failAdd}
						u := &modelUnpub{failAt: failPut, ops: map[string]int{}}
						proc := processor.New("verif", storeFunc(storeFor), client)
						var opts []dochandler.Option
						if withUnpub {
							opts = append(opts, dochandler.WithUnpublishedOperationStore(u, allTypes))
						}
						h := dochandler.New(ns, nil, client, w, proc, fx.Metrics, opts...)
						for step, i := range idx {
							beforeQ, beforeU := strings.Join(w.ops, ";"), u.snapshot()
							_, err := h.ProcessOperation(reqs[i].req, 10)
							r.Eval()
							r.Trans(1)
							afterQ, afterU := strings.Join(w.ops, ";"), u.snapshot()
							if err != nil {
								if afterQ != beforeQ || afterU != beforeU {
									r.Violation("refused-request-leaves-trace", caseID, fmt.Sprintf("step %d (%s) failed with %v but queue %q->%q unpublished %q->%q", step, reqs[i].name, err, beforeQ, afterQ, beforeU, afterU), nil)
								}
								r.Nontrivial(caseID)
							} else {
								if !reqs[i].valid {
									r.Violation("invalid-request-accepted:"+reqs[i].name, caseID, fmt.Sprintf("step %d (%s) was accepted", step, reqs[i].name), nil)
								}
								if len(w.ops) != strings.Count(beforeQ, ";")+boolInt(beforeQ != "")+1 {
									r.Violation("accepted-request-not-queued-once", caseID, fmt.Sprintf("step %d (%s) accepted: queue %q -> %q", step, reqs[i].name, beforeQ, afterQ), nil)
								}
							}
						}
						r.State()
					}
				}
			}
		})
	}
}

// failQueue is a real MemQueue whose n-th Add fails.
type failQueue struct {
	opqueue.MemQueue
	n, failAt int
}

func (q *failQueue) Add(op *operation.QueuedOperation, pv uint64) (uint, error) {
	q.n++
	if q.n == q.failAt {
		return 0, fmt.Errorf("injected queue failure")
	}
	return q.MemQueue.Add(op, pv)
}

func queueContent(q *failQueue) string {
	items, _ := q.Peek(q.Len())
	var out []string
	for _, it := range items {
		out = append(out, fmt.Sprintf("%s:%s:%d", it.Type, it.UniqueSuffix, it.ProtocolVersion))
	}
	return strings.Join(out, ";")
}

// c15IntakeRealWriter submits through the real batch.Writer (never started: no timers) over a real queue; the writer is
// stopped before a chosen step and the queue fails at a chosen Add. A refused submission must not be in the queue.
func c15IntakeRealWriter(r *hx.Run, ns string, client protocol.Client, newProc func() *processor.OperationProcessor, reqs []intakeReq) {
	allTypes := []operation.Type{operation.TypeCreate, operation.TypeUpdate, operation.TypeRecover, operation.TypeDeactivate}
	for seqLen := 1; seqLen <= 2; seqLen++ {
		tuples(len(reqs), seqLen, func(idx []int) {
			for stopAt := 0; stopAt <= seqLen; stopAt++ {
				for failAdd := 0; failAdd <= seqLen; failAdd++ {
					for _, withUnpub := range []bool{true, false} {
						var names []string
						for _, i := range idx {
							names = append(names, reqs[i].name)
						}
						caseID := fmt.Sprintf("intake-writer|%s|stopAt=%d|failAdd=%d|unpub=%v", strings.Join(names, ","), stopAt, failAdd, withUnpub)
						if !r.Want(caseID) {
							continue
						}
						q := &failQueue{failAt: failAdd}
						w, err := batch.New(ns, &c16Ctx{pc: client, anchor: &c16Anchor{}, queue: q}, batch.WithBatchTimeout(24*time.Hour), batch.WithMonitorInterval(24*time.Hour))
						if err != nil {
							panic(err)
						}
						u := &modelUnpub{ops: map[string]int{}}
						var opts []dochandler.Option
						if withUnpub {
							opts = append(opts, dochandler.WithUnpublishedOperationStore(u, allTypes))
						}
						h := dochandler.New(ns, nil, client, w, newProc(), fx.Metrics, opts...)
						accepted := 0
						for step, i := range idx {
							if stopAt == step+1 {
								w.Stop()
							}
							beforeQ, beforeU := queueContent(q), u.snapshot()
							_, err := h.ProcessOperation(reqs[i].req, 10)
							r.Eval()
							r.Trans(1)
							afterQ, afterU := queueContent(q), u.snapshot()
							if err != nil {
								if afterQ != beforeQ || afterU != beforeU {
									r.Violation("refused-request-leaves-trace:real-writer", caseID, fmt.Sprintf("step %d (%s) failed with %v but queue %q->%q unpublished %q->%q", step, reqs[i].name, err, beforeQ, afterQ, beforeU, afterU), nil)
								}
								r.Nontrivial(caseID)
							} else {
								accepted++
								if w.Stopped() {
									r.Violation("stopped-writer-accepts", caseID, fmt.Sprintf("step %d (%s) was accepted by a stopped writer", step, reqs[i].name), nil)
								}
								if int(q.Len()) != accepted {
									r.Violation("accepted-request-not-queued-once:real-writer", caseID, fmt.Sprintf("step %d (%s) accepted: queue %q -> %q", step, reqs[i].name, beforeQ, afterQ), nil)
								}
							}
						}
						r.Outcome(fmt.Sprintf("real writer: accepted %d of %d", accepted, len(idx)))
						r.State()
					}
				}
			}
		})
	}
}

func boolInt(b bool) int {
	if b {
		return 1
	}
	return 0
}

type storeFunc func(string) ([]*operation.AnchoredOperation, error)

func (f storeFunc) Get(s string) ([]*operation.AnchoredOperation, error) { return f(s) }
