package fx

import (
	"crypto/sha256"
	"crypto/sha512"
	"encoding/json"

	"verif/mc/ref/jcs"
)

// Multihash codes.
const (
	SHA256 uint = 0x12
	SHA512 uint = 0x13
)

// RawHash hashes with the function named by the multihash code.
func RawHash(code uint, data []byte) []byte {
	switch code {
	case SHA256:
		h := sha256.Sum256(data)
		return h[:]
	case SHA512:
		h := sha512.Sum512(data)
		return h[:]
	}
	panic("unsupported code")
}

// MultihashBytes encodes digest as multihash bytes.
func MultihashBytes(code uint, digest []byte) []byte {
	return append([]byte{byte(code), byte(len(digest))}, digest...)
}

// Multihash = base64url(multihash(code, H(data))).
func Multihash(code uint, data []byte) string {
	return b64(MultihashBytes(code, RawHash(code, data)))
}

// ModelHash = Multihash over the canonical form of the Go value tree.
func ModelHash(code uint, model interface{}) string {
	return Multihash(code, jcs.MustCanon(model))
}

// JWKMap is the JSON value of a key as the library's model serializes it (y always present).
func JWKMap(k *Key, nonce string) map[string]interface{} {
	m := map[string]interface{}{"kty": k.JWK.Kty, "crv": k.JWK.Crv, "x": k.JWK.X, "y": k.JWK.Y}
	if nonce != "" {
		m["nonce"] = nonce
	}
	return m
}

// Reveal is the reveal value of a key.
func Reveal(k *Key, code uint) string { return RevealN(k, code, "") }

// RevealN is the reveal value of a key carrying a nonce.
func RevealN(k *Key, code uint, nonce string) string { return ModelHash(code, JWKMap(k, nonce)) }

// Commit is the commitment of a key: multihash(H(H(JCS(jwk)))).
func Commit(k *Key, code uint) string { return CommitN(k, code, "") }

// CommitN is the commitment of a key carrying a nonce.
func CommitN(k *Key, code uint, nonce string) string {
	inner := RawHash(code, jcs.MustCanon(JWKMap(k, nonce)))
	return b64(MultihashBytes(code, RawHash(code, inner)))
}

// JWSOpts tweak compact JWS construction (all optional).
type JWSOpts struct {
	Alg        string                 // header alg (default: AlgFor(signer type))
	Kid        string                 // optional kid header
	Header     map[string]interface{} // full header override
	HeaderRaw  []byte                 // raw header bytes override (signed as given)
	SigMut     func([]byte) []byte    // applied to the signature bytes
	PayloadMut func([]byte) []byte    // applied to the payload after signing
	HeaderMut  func([]byte) []byte    // applied to header bytes after signing
}

// CompactJWS builds header.payload.signature independently of the library.
func CompactJWS(signer *Key, payload []byte, o *JWSOpts) string {
	if o == nil {
		o = &JWSOpts{}
	}
	var hb []byte
	switch {
	case o.HeaderRaw != nil:
		hb = o.HeaderRaw
	case o.Header != nil:
		hb = jcs.MustCanon(o.Header)
	default:
		h := map[string]interface{}{"alg": AlgFor(signer.Type)}
		if o.Alg != "" {
			h["alg"] = o.Alg
		}
		if o.Kid != "" {
			h["kid"] = o.Kid
		}
		hb = jcs.MustCanon(h)
	}
	input := b64(hb) + "." + b64(payload)
	sig := signer.Sign([]byte(input))
	if o.SigMut != nil {
		sig = o.SigMut(sig)
	}
	if o.PayloadMut != nil {
		payload = o.PayloadMut(payload)
	}
	if o.HeaderMut != nil {
		hb = o.HeaderMut(hb)
	}
	return b64(hb) + "." + b64(payload) + "." + b64(sig)
}

// Delta builds a delta value.
func Delta(updateCommitment string, patches []interface{}) map[string]interface{} {
	return map[string]interface{}{"updateCommitment": updateCommitment, "patches": patches}
}

// CreateSpec describes a create request.
type CreateSpec struct {
	RecoveryCommit string
	UpdateCommit   string
	Patches        []interface{}
	Code           uint
	AnchorOrigin   interface{}
	Type           string
	DeltaHash      string      // override
	DeltaRaw       interface{} // override of the delta member (after hashing)
}

// Create builds a create request; returns request bytes and unique suffix.
func Create(s *CreateSpec) ([]byte, string) {
	delta := Delta(s.UpdateCommit, s.Patches)
	dh := ModelHash(s.Code, delta)
	if s.DeltaHash != "" {
		dh = s.DeltaHash
	}
	sd := map[string]interface{}{"deltaHash": dh, "recoveryCommitment": s.RecoveryCommit}
	if s.AnchorOrigin != nil {
		sd["anchorOrigin"] = s.AnchorOrigin
	}
	if s.Type != "" {
		sd["type"] = s.Type
	}
	var d interface{} = delta
	if s.DeltaRaw != nil {
		d = s.DeltaRaw
	}
	req := map[string]interface{}{"type": "create", "suffixData": sd, "delta": d}
	return jcs.MustCanon(req), ModelHash(s.Code, sd)
}

// OpSpec describes an update / recover / deactivate request with optional tampering.
type OpSpec struct {
	Type         string // update | recover | deactivate
	Suffix       string
	SignKey      *Key // signs the JWS
	PayloadKey   *Key // key embedded in the signed data (default SignKey)
	RevealKey    *Key // key whose reveal value is sent (default PayloadKey)
	Nonce        string
	NextUpdate   string // delta.updateCommitment (update, recover)
	NextRecov    string // signed recoveryCommitment (recover)
	Patches      []interface{}
	From         int64
	Until        int64
	Code         uint
	Origin       interface{} // recover anchorOrigin
	SignedSuffix string      // deactivate: suffix inside the signed data (default Suffix)
	DeltaHash    string      // override of signed delta hash
	DeltaRaw     interface{} // override of the request's delta member
	NoDelta      bool
	RevealRaw    string // override of reveal value string
	JWS          *JWSOpts
	Extra        map[string]interface{} // extra top-level members
	SignedExtra  map[string]interface{} // extra/override members in the signed data
}

// SignedPayload returns the signed data value of the spec.
func (s *OpSpec) SignedPayload() map[string]interface{} {
	pk := s.PayloadKey
	if pk == nil {
		pk = s.SignKey
	}
	p := map[string]interface{}{}
	if s.From != 0 {
		p["anchorFrom"] = s.From
	}
	if s.Until != 0 {
		p["anchorUntil"] = s.Until
	}
	switch s.Type {
	case "update":
		p["updateKey"] = JWKMap(pk, s.Nonce)
		p["deltaHash"] = s.deltaHash()
	case "recover":
		p["recoveryKey"] = JWKMap(pk, s.Nonce)
		p["deltaHash"] = s.deltaHash()
		p["recoveryCommitment"] = s.NextRecov
		if s.Origin != nil {
			p["anchorOrigin"] = s.Origin
		}
	case "deactivate":
		p["recoveryKey"] = JWKMap(pk, s.Nonce)
		ss := s.SignedSuffix
		if ss == "" {
			ss = s.Suffix
		}
		p["didSuffix"] = ss
	}
	for k, v := range s.SignedExtra {
		if v == nil {
			delete(p, k)
		} else {
			p[k] = v
		}
	}
	return p
}

func (s *OpSpec) deltaHash() string {
	if s.DeltaHash != "" {
		return s.DeltaHash
	}
	return ModelHash(s.Code, Delta(s.NextUpdate, s.Patches))
}

// Build builds the request bytes.
func (s *OpSpec) Build() []byte {
	pk := s.PayloadKey
	if pk == nil {
		pk = s.SignKey
	}
	rk := s.RevealKey
	if rk == nil {
		rk = pk
	}
	payload := jcs.MustCanon(s.SignedPayload())
	compact := CompactJWS(s.SignKey, payload, s.JWS)
	rv := RevealN(rk, s.Code, s.Nonce)
	if s.RevealRaw != "" {
		rv = s.RevealRaw
	}
	req := map[string]interface{}{"type": s.Type, "didSuffix": s.Suffix, "revealValue": rv, "signedData": compact}
	if s.Type != "deactivate" && !s.NoDelta {
		var d interface{} = Delta(s.NextUpdate, s.Patches)
		if s.DeltaRaw != nil {
			d = s.DeltaRaw
		}
		req["delta"] = d
	}
	for k, v := range s.Extra {
		req[k] = v
	}
	return jcs.MustCanon(req)
}

// MustJSON decodes JSON into a Go value tree.
func MustJSON(s string) interface{} {
	var v interface{}
	if err := json.Unmarshal([]byte(s), &v); err != nil {
		panic(err)
	}
	return v
}

// Standard patches used by the operation pool.

// AddKeyPatch adds one Ed25519-typed public key entry with the given id.
func AddKeyPatch(id string, k *Key) interface{} {
	return map[string]interface{}{"action": "add-public-keys", "publicKeys": []interface{}{KeyEntry(id, k, []interface{}{"authentication"})}}
}

// KeyEntry is a public key entry of a document.
func KeyEntry(id string, k *Key, purposes []interface{}) map[string]interface{} {
	m := map[string]interface{}{"id": id, "type": "JsonWebKey2020", "publicKeyJwk": map[string]interface{}{"kty": k.JWK.Kty, "crv": k.JWK.Crv, "x": k.JWK.X, "y": k.JWK.Y}}
	if k.JWK.Y == "" {
		delete(m["publicKeyJwk"].(map[string]interface{}), "y")
	}
	if purposes != nil {
		m["purposes"] = purposes
	}
	return m
}

// AddServicePatch adds one service entry.
func AddServicePatch(id, endpoint string) interface{} {
	return map[string]interface{}{"action": "add-services", "services": []interface{}{ServiceEntry(id, endpoint)}}
}

// ServiceEntry is a service entry of a document.
func ServiceEntry(id, endpoint string) map[string]interface{} {
	return map[string]interface{}{"id": id, "type": "LinkedDomains", "serviceEndpoint": endpoint}
}

// JSONPatch builds an ietf-json-patch patch from RFC 6902 operations.
func JSONPatch(ops ...interface{}) interface{} {
	return map[string]interface{}{"action": "ietf-json-patch", "patches": ops}
}

// JOp builds one RFC 6902 operation.
func JOp(op, path string, value interface{}) interface{} {
	m := map[string]interface{}{"op": op, "path": path}
	if value != nil {
		m["value"] = value
	}
	return m
}
