package fx

import (
	"fmt"
	"sort"
	"sync"
	"time"

	"github.com/trustbloc/logutil-go/pkg/log"

	"github.com/trustbloc/sidetree-core-go/pkg/api/operation"
	"github.com/trustbloc/sidetree-core-go/pkg/api/protocol"
	"github.com/trustbloc/sidetree-core-go/pkg/compression"
	"github.com/trustbloc/sidetree-core-go/pkg/versions/1_0/doccomposer"
	"github.com/trustbloc/sidetree-core-go/pkg/versions/1_0/doctransformer/didtransformer"
	"github.com/trustbloc/sidetree-core-go/pkg/versions/1_0/docvalidator/didvalidator"
	"github.com/trustbloc/sidetree-core-go/pkg/versions/1_0/operationapplier"
	"github.com/trustbloc/sidetree-core-go/pkg/versions/1_0/operationparser"
	"github.com/trustbloc/sidetree-core-go/pkg/versions/1_0/txnprocessor"
	"github.com/trustbloc/sidetree-core-go/pkg/versions/1_0/txnprovider"
)

// Quiet silences the library's logging.
func Quiet() {
	log.SetDefaultLevel(log.PANIC)
	for _, m := range []string{"sidetree-core-processor", "sidetree-core-applier", "sidetree-core-parser", "sidetree-core-commitment",
		"sidetree-core-txnhandler", "sidetree-core-observer", "sidetree-core-dochandler", "sidetree-core-composer",
		"sidetree-core-cutter", "sidetree-core-writer", "sidetree-core-restapi-dochandler"} {
		log.SetLevel(m, log.PANIC)
	}
}

// AllPatches lists every patch action.
var AllPatches = []string{"replace", "add-public-keys", "remove-public-keys", "add-services", "remove-services",
	"ietf-json-patch", "add-also-known-as", "remove-also-known-as"}

// AllSigAlgs lists every signature algorithm.
var AllSigAlgs = []string{"EdDSA", "ES256", "ES384", "ES512", "ES256K"}

// DefaultProtocol returns generous protocol parameters in which no two numeric parameters coincide.
func DefaultProtocol() protocol.Protocol {
	return protocol.Protocol{
		GenesisTime:                  0,
		MultihashAlgorithms:          []uint{SHA256, SHA512},
		MaxOperationCount:            2,
		MaxOperationSize:             20011,
		MaxOperationHashLength:       101,
		MaxDeltaSize:                 10007,
		MaxCasURILength:              103,
		CompressionAlgorithm:         "GZIP",
		MaxChunkFileSize:             200003,
		MaxProvisionalIndexFileSize:  200009,
		MaxCoreIndexFileSize:         200017,
		MaxProofFileSize:             200023,
		SignatureAlgorithms:          append([]string{}, AllSigAlgs...),
		KeyAlgorithms:                append([]string{}, KeyTypes...),
		Patches:                      append([]string{}, AllPatches...),
		MaxOperationTimeDelta:        307,
		NonceSize:                    16,
		MaxMemoryDecompressionFactor: 3,
	}
}

// Version is a protocol.Version assembled from the library's real components.
type Version struct {
	P           protocol.Protocol
	Parser      *operationparser.Parser
	Applier     *operationapplier.Applier
	Composer    *doccomposer.DocumentComposer
	Handler     protocol.OperationHandler
	Provider    protocol.OperationProvider
	TxnProc     protocol.TxnProcessor
	Validator   protocol.DocumentValidator
	Transformer protocol.DocumentTransformer
}

// VersionOpts configure NewVersion.
type VersionOpts struct {
	ParserOpts      []operationparser.Option
	CAS             CAS
	Store           txnprocessor.OperationStore
	TxnProcOpts     []txnprocessor.Option
	TransformerOpts []didtransformer.Option
	ProviderOpts    []txnprovider.Opt
}

// CAS is the content-addressable storage interface used by handler and provider.
type CAS interface {
	Write(content []byte) (string, error)
	Read(address string) ([]byte, error)
}

type noMetrics struct{}

func (noMetrics) CASWriteSize(string, int)                  {}
func (noMetrics) ProcessOperation(time.Duration)            {}
func (noMetrics) GetProtocolVersionTime(time.Duration)      {}
func (noMetrics) ParseOperationTime(time.Duration)          {}
func (noMetrics) ValidateOperationTime(time.Duration)       {}
func (noMetrics) DecorateOperationTime(time.Duration)       {}
func (noMetrics) AddUnpublishedOperationTime(time.Duration) {}
func (noMetrics) AddOperationToBatchTime(time.Duration)     {}
func (noMetrics) GetCreateOperationResultTime(time.Duration) {
}
func (noMetrics) HTTPCreateUpdateTime(time.Duration) {}
func (noMetrics) HTTPResolveTime(time.Duration)      {}

// Metrics is a no-op metrics provider.
var Metrics = noMetrics{}

// NewVersion wires a version from real parts.
func NewVersion(p protocol.Protocol, o *VersionOpts) *Version {
	if o == nil {
		o = &VersionOpts{}
	}
	v := &Version{P: p}
	v.Parser = operationparser.New(p, o.ParserOpts...)
	v.Composer = doccomposer.New()
	v.Applier = operationapplier.New(p, v.Parser, v.Composer)
	v.Validator = didvalidator.New()
	v.Transformer = didtransformer.New(o.TransformerOpts...)
	if o.CAS != nil {
		reg := compression.New(compression.WithDefaultAlgorithms())
		v.Handler = txnprovider.NewOperationHandler(p, o.CAS, reg, v.Parser, Metrics)
		v.Provider = txnprovider.NewOperationProvider(p, v.Parser, o.CAS, reg, o.ProviderOpts...)
		if o.Store != nil {
			v.TxnProc = txnprocessor.New(&txnprocessor.Providers{OpStore: o.Store, OperationProtocolProvider: v.Provider}, o.TxnProcOpts...)
		}
	}
	return v
}

// Version implements protocol.Version.
func (v *Version) Version() string                                   { return "1.0" }
func (v *Version) Protocol() protocol.Protocol                       { return v.P }
func (v *Version) TransactionProcessor() protocol.TxnProcessor       { return v.TxnProc }
func (v *Version) OperationParser() protocol.OperationParser         { return v.Parser }
func (v *Version) OperationApplier() protocol.OperationApplier       { return v.Applier }
func (v *Version) OperationHandler() protocol.OperationHandler       { return v.Handler }
func (v *Version) OperationProvider() protocol.OperationProvider     { return v.Provider }
func (v *Version) DocumentComposer() protocol.DocumentComposer       { return v.Composer }
func (v *Version) DocumentValidator() protocol.DocumentValidator     { return v.Validator }
func (v *Version) DocumentTransformer() protocol.DocumentTransformer { return v.Transformer }

// Client is a protocol.Client over versions sorted by genesis time (like mocks.MockProtocolClient.Get).
type Client struct {
	mu       sync.Mutex
	Versions []protocol.Version // ascending genesis
	Cur      protocol.Version   // Current(); default latest
}

// NewClient builds a client.
func NewClient(vs ...protocol.Version) *Client {
	c := &Client{Versions: vs}
	sort.SliceStable(c.Versions, func(i, j int) bool {
		return c.Versions[i].Protocol().GenesisTime < c.Versions[j].Protocol().GenesisTime
	})
	c.Cur = c.Versions[len(c.Versions)-1]
	return c
}

// Current implements protocol.Client.
func (c *Client) Current() (protocol.Version, error) {
	c.mu.Lock()
	defer c.mu.Unlock()
	return c.Cur, nil
}

// SetCurrent changes the current version.
func (c *Client) SetCurrent(v protocol.Version) {
	c.mu.Lock()
	c.Cur = v
	c.mu.Unlock()
}

// Get implements protocol.Client.
func (c *Client) Get(t uint64) (protocol.Version, error) {
	for i := len(c.Versions) - 1; i >= 0; i-- {
		if t >= c.Versions[i].Protocol().GenesisTime {
			return c.Versions[i], nil
		}
	}
	return nil, fmt.Errorf("protocol parameters are not defined for anchoring time: %d", t)
}

// ClientProvider implements protocol.ClientProvider.
type ClientProvider map[string]protocol.Client

// ForNamespace implements protocol.ClientProvider.
func (m ClientProvider) ForNamespace(ns string) (protocol.Client, error) {
	c, ok := m[ns]
	if !ok {
		return nil, fmt.Errorf("protocol client not found for namespace [%s]", ns)
	}
	return c, nil
}

// Store is a harness operation store; Get returns operations in the order chosen by Perm.
type Store struct {
	mu   sync.Mutex
	Ops  map[string][]*operation.AnchoredOperation
	Puts [][]*operation.AnchoredOperation
	// FailPut, when non-nil, is consulted with the 1-based Put call index.
	FailPut func(n int) bool
	nput    int
}

// NewStore returns an empty store.
func NewStore() *Store { return &Store{Ops: map[string][]*operation.AnchoredOperation{}} }

// Put implements the operation store (atomic per call).
func (s *Store) Put(ops []*operation.AnchoredOperation) error {
	s.mu.Lock()
	defer s.mu.Unlock()
	s.nput++
	if s.FailPut != nil && s.FailPut(s.nput) {
		return fmt.Errorf("injected store failure on put %d", s.nput)
	}
	cp := make([]*operation.AnchoredOperation, len(ops))
	for i, op := range ops {
		c := *op
		cp[i] = &c
		s.Ops[op.UniqueSuffix] = append(s.Ops[op.UniqueSuffix], &c)
	}
	s.Puts = append(s.Puts, cp)
	return nil
}

// Get implements processor.OperationStoreClient. It returns fresh copies.
func (s *Store) Get(suffix string) ([]*operation.AnchoredOperation, error) {
	s.mu.Lock()
	defer s.mu.Unlock()
	ops, ok := s.Ops[suffix]
	if !ok || len(ops) == 0 {
		return nil, fmt.Errorf("uniqueSuffix[%s] not found in the store", suffix)
	}
	out := make([]*operation.AnchoredOperation, len(ops))
	for i, op := range ops {
		c := *op
		out[i] = &c
	}
	return out, nil
}

// SliceStore serves a fixed slice (fresh copies on every Get).
type SliceStore []*operation.AnchoredOperation

// Get implements processor.OperationStoreClient.
func (s SliceStore) Get(string) ([]*operation.AnchoredOperation, error) {
	if len(s) == 0 {
		return nil, fmt.Errorf("not found")
	}
	out := make([]*operation.AnchoredOperation, len(s))
	for i, op := range s {
		c := *op
		out[i] = &c
	}
	return out, nil
}
