package fx

import (
	"bytes"
	"compress/gzip"
	"crypto/sha256"
	"fmt"
	"io"
	"sync"

	"github.com/trustbloc/sidetree-core-go/pkg/api/operation"
)

// MemCAS is an in-memory content-addressable store with optional fault hooks.
type MemCAS struct {
	mu      sync.Mutex
	Data    map[string][]byte
	Writes  []string
	Reads   []string
	FailW   func(n int, content []byte) bool // n is the 1-based write index
	FailR   func(n int, addr string) bool    // n is the 1-based read index
	nw, nr  int
	Aliases map[string][]byte // extra addresses (alternate-source URIs)
}

// NewMemCAS returns an empty CAS.
func NewMemCAS() *MemCAS { return &MemCAS{Data: map[string][]byte{}, Aliases: map[string][]byte{}} }

// Addr is the content address of content.
func Addr(content []byte) string {
	h := sha256.Sum256(content)
	return "bafy" + B64(h[:])
}

// Write implements cas.Client.
func (c *MemCAS) Write(content []byte) (string, error) {
	c.mu.Lock()
	defer c.mu.Unlock()
	c.nw++
	if c.FailW != nil && c.FailW(c.nw, content) {
		return "", fmt.Errorf("injected CAS write failure #%d", c.nw)
	}
	a := Addr(content)
	c.Data[a] = append([]byte(nil), content...)
	c.Writes = append(c.Writes, a)
	return a, nil
}

// Read implements cas.Client.
func (c *MemCAS) Read(addr string) ([]byte, error) {
	c.mu.Lock()
	defer c.mu.Unlock()
	c.nr++
	c.Reads = append(c.Reads, addr)
	if c.FailR != nil && c.FailR(c.nr, addr) {
		return nil, fmt.Errorf("injected CAS read failure #%d", c.nr)
	}
	if b, ok := c.Data[addr]; ok {
		return append([]byte(nil), b...), nil
	}
	if b, ok := c.Aliases[addr]; ok {
		return append([]byte(nil), b...), nil
	}
	return nil, fmt.Errorf("content not found at %s", addr)
}

// Put stores content under an explicit address (for hand-made file sets).
func (c *MemCAS) Put(addr string, content []byte) {
	c.mu.Lock()
	c.Data[addr] = append([]byte(nil), content...)
	c.mu.Unlock()
}

// Clone copies the store content (no hooks).
func (c *MemCAS) Clone() *MemCAS {
	n := NewMemCAS()
	c.mu.Lock()
	for k, v := range c.Data {
		n.Data[k] = v
	}
	c.mu.Unlock()
	return n
}

// Gzip compresses.
func Gzip(b []byte) []byte {
	var buf bytes.Buffer
	zw := gzip.NewWriter(&buf)
	_, _ = zw.Write(b)
	_ = zw.Close()
	return buf.Bytes()
}

// Gunzip decompresses.
func Gunzip(b []byte) ([]byte, error) {
	zr, err := gzip.NewReader(bytes.NewReader(b))
	if err != nil {
		return nil, err
	}
	return io.ReadAll(zr)
}

// DIDOps are the four requests of one DID.
type DIDOps struct {
	Suffix string
	Keys   map[string]*Key
	Req    map[string][]byte // C, U, R, D (+ variants)
	Origin map[string]interface{}
}

// NewDIDOps builds create/update/recover/deactivate requests of one DID (independent builder).
func NewDIDOps(kt string, code uint, name string) *DIDOps {
	d := &DIDOps{Keys: map[string]*Key{}, Req: map[string][]byte{}, Origin: map[string]interface{}{}}
	for _, n := range []string{"r0", "r1", "u0", "u1", "v0"} {
		d.Keys[n] = NewKey(kt, "did/"+name+"/"+n)
	}
	c := func(n string) string { return Commit(d.Keys[n], code) }
	d.Origin["C"] = "origin-c-" + name
	d.Origin["R"] = map[string]interface{}{"o": "origin-r-" + name}
	req, suffix := Create(&CreateSpec{RecoveryCommit: c("r0"), UpdateCommit: c("u0"), Code: code, AnchorOrigin: d.Origin["C"],
		Patches: []interface{}{AddServicePatch("s0", "https://example.com/"+name)}})
	d.Suffix = suffix
	d.Req["C"] = req
	d.Req["U"] = (&OpSpec{Type: "update", Suffix: suffix, SignKey: d.Keys["u0"], NextUpdate: c("u1"), Code: code,
		Patches: []interface{}{AddServicePatch("s1", "https://example.com/u/"+name)}}).Build()
	d.Req["R"] = (&OpSpec{Type: "recover", Suffix: suffix, SignKey: d.Keys["r0"], NextRecov: c("r1"), NextUpdate: c("v0"), Code: code, Origin: d.Origin["R"],
		Patches: []interface{}{AddServicePatch("s2", "https://example.com/r/"+name)}}).Build()
	d.Req["D"] = (&OpSpec{Type: "deactivate", Suffix: suffix, SignKey: d.Keys["r0"], Code: code}).Build()
	// second update (after U) and expired-marked variants (anchorFrom = ExpiredMark)
	d.Req["U2"] = (&OpSpec{Type: "update", Suffix: suffix, SignKey: d.Keys["u1"], NextUpdate: c("u0"), Code: code,
		Patches: []interface{}{AddServicePatch("s3", "https://example.com/u2/"+name)}}).Build()
	d.Req["Ux"] = (&OpSpec{Type: "update", Suffix: suffix, SignKey: d.Keys["u0"], NextUpdate: c("u1"), Code: code, From: ExpiredMark, Until: ExpiredMark + 1,
		Patches: []interface{}{AddServicePatch("s1", "https://example.com/ux/"+name)}}).Build()
	// an update whose anchoring window has not opened yet (anchorFrom = EarlyMark): not expired - its batch is refused and retried
	d.Req["Ue"] = (&OpSpec{Type: "update", Suffix: suffix, SignKey: d.Keys["u0"], NextUpdate: c("u1"), Code: code, From: EarlyMark, Until: EarlyMark + 1,
		Patches: []interface{}{AddServicePatch("early", "https://example.com/early")}}).Build()
	d.Req["Rx"] = (&OpSpec{Type: "recover", Suffix: suffix, SignKey: d.Keys["r0"], NextRecov: c("r1"), NextUpdate: c("v0"), Code: code, From: ExpiredMark, Until: ExpiredMark + 1,
		Patches: []interface{}{AddServicePatch("s2", "https://example.com/rx/"+name)}}).Build()
	d.Req["Dx"] = (&OpSpec{Type: "deactivate", Suffix: suffix, SignKey: d.Keys["r0"], Code: code, From: ExpiredMark, Until: ExpiredMark + 1}).Build()
	return d
}

// NewRichDIDOps is NewDIDOps with unusual content: non-ASCII and escaped characters, nested anchor-origin objects,
// several patches per delta, a kid header, a nonce in the signing keys and explicit anchoring windows.
func NewRichDIDOps(kt string, code uint, name string) *DIDOps {
	d := &DIDOps{Keys: map[string]*Key{}, Req: map[string][]byte{}, Origin: map[string]interface{}{}}
	for _, n := range []string{"r0", "r1", "u0", "u1", "v0"} {
		d.Keys[n] = NewKey(kt, "richdid/"+name+"/"+n)
	}
	nonce := B64([]byte("fedcba9876543210"))
	c := func(n string) string { return CommitN(d.Keys[n], code, nonce) }
	d.Origin["C"] = map[string]interface{}{"ö": []interface{}{1.5, true, nil, "\u2028 \"q\" \\ /"}, "a": map[string]interface{}{"b": "c"}}
	d.Origin["R"] = "https://origin.example/é?x=1&y=<2>"
	rich := []interface{}{
		map[string]interface{}{"action": "add-public-keys", "publicKeys": []interface{}{KeyEntry("k-1_A", d.Keys["v0"], []interface{}{"authentication", "assertionMethod"})}},
		map[string]interface{}{"action": "add-services", "services": []interface{}{map[string]interface{}{"id": "svc", "type": "T", "serviceEndpoint": []interface{}{"https://example.com/ü", map[string]interface{}{"n": 1e21}}, "extra": "\u0000\u001f"}}},
		JSONPatch(JOp("add", "/né", map[string]interface{}{"deep": []interface{}{[]interface{}{}, map[string]interface{}{}}})),
	}
	req, suffix := Create(&CreateSpec{RecoveryCommit: c("r0"), UpdateCommit: c("u0"), Code: code, AnchorOrigin: d.Origin["C"], Type: "t-é", Patches: rich})
	d.Suffix = suffix
	d.Req["C"] = req
	jw := &JWSOpts{Kid: "kid-ü"}
	d.Req["U"] = (&OpSpec{Type: "update", Suffix: suffix, SignKey: d.Keys["u0"], Nonce: nonce, NextUpdate: c("u1"), Code: code, From: 1, Until: 1 << 40, JWS: jw, Patches: rich[1:]}).Build()
	d.Req["R"] = (&OpSpec{Type: "recover", Suffix: suffix, SignKey: d.Keys["r0"], Nonce: nonce, NextRecov: c("r1"), NextUpdate: c("v0"), Code: code, Origin: d.Origin["R"], From: 1, JWS: jw, Patches: rich}).Build()
	d.Req["D"] = (&OpSpec{Type: "deactivate", Suffix: suffix, SignKey: d.Keys["r0"], Nonce: nonce, Code: code, Until: 1 << 40, JWS: jw}).Build()
	d.Req["U2"] = (&OpSpec{Type: "update", Suffix: suffix, SignKey: d.Keys["u1"], Nonce: nonce, NextUpdate: c("u0"), Code: code, Patches: rich[:1]}).Build()
	d.Req["Ux"] = (&OpSpec{Type: "update", Suffix: suffix, SignKey: d.Keys["u0"], Nonce: nonce, NextUpdate: c("u1"), Code: code, From: ExpiredMark, Until: ExpiredMark + 1, Patches: rich[1:]}).Build()
	d.Req["Rx"] = (&OpSpec{Type: "recover", Suffix: suffix, SignKey: d.Keys["r0"], Nonce: nonce, NextRecov: c("r1"), NextUpdate: c("v0"), Code: code, From: ExpiredMark, Until: ExpiredMark + 1, Patches: rich}).Build()
	d.Req["Dx"] = (&OpSpec{Type: "deactivate", Suffix: suffix, SignKey: d.Keys["r0"], Nonce: nonce, Code: code, From: ExpiredMark, Until: ExpiredMark + 1}).Build()
	return d
}

// ExpiredMark is the anchorFrom value the harness' time validator treats as expired.
const ExpiredMark = 7777

// EarlyMark is the anchorFrom value the harness' time validator treats as not yet valid (ErrOperationEarly).
const EarlyMark = 8888

// TypeOf maps a request key (C, U, R, D, U2, Ux, ...) to the operation type.
func TypeOf(k string) operation.Type {
	switch k[0] {
	case 'C':
		return operation.TypeCreate
	case 'U':
		return operation.TypeUpdate
	case 'R':
		return operation.TypeRecover
	}
	return operation.TypeDeactivate
}

// Queued builds the queued operation for request key k.
func (d *DIDOps) Queued(k, ns string) *operation.QueuedOperation {
	return &operation.QueuedOperation{Type: TypeOf(k), OperationRequest: d.Req[k], UniqueSuffix: d.Suffix, Namespace: ns}
}
