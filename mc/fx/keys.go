// Package fx holds the fixtures shared by the checks: a deterministic key pool, an independent compact
// JWS / request builder, and a protocol.Version assembled only from the library's real components.
package fx

import (
	"crypto/ecdsa"
	"crypto/ed25519"
	"crypto/elliptic"
	"crypto/sha256"
	"crypto/sha512"
	"encoding/base64"
	"fmt"
	"hash"
	"math/big"

	"github.com/btcsuite/btcd/btcec"

	"github.com/trustbloc/sidetree-core-go/pkg/jws"
)

// KeyType names.
const (
	Ed25519   = "Ed25519"
	P256      = "P-256"
	P384      = "P-384"
	P521      = "P-521"
	Secp256k1 = "secp256k1"
)

// KeyTypes lists all supported key types.
var KeyTypes = []string{Ed25519, P256, P384, P521, Secp256k1}

// AlgFor returns the JWS alg of a key type.
func AlgFor(kt string) string {
	switch kt {
	case Ed25519:
		return "EdDSA"
	case P256:
		return "ES256"
	case P384:
		return "ES384"
	case P521:
		return "ES512"
	case Secp256k1:
		return "ES256K"
	}
	panic("unknown key type " + kt)
}

// Key is a deterministic key pair.
type Key struct {
	Name string
	Type string
	Ed   ed25519.PrivateKey
	EC   *ecdsa.PrivateKey
	JWK  *jws.JWK
}

func b64(b []byte) string { return base64.RawURLEncoding.EncodeToString(b) }

// B64 is base64url without padding.
func B64(b []byte) string { return b64(b) }

func curveFor(kt string) elliptic.Curve {
	switch kt {
	case P256:
		return elliptic.P256()
	case P384:
		return elliptic.P384()
	case P521:
		return elliptic.P521()
	case Secp256k1:
		return btcec.S256()
	}
	return nil
}

func hashFor(kt string) hash.Hash {
	switch kt {
	case P384:
		return sha512.New384()
	case P521:
		return sha512.New()
	}
	return sha256.New()
}

// CoordSize is the byte size of a coordinate for the key type.
func CoordSize(kt string) int {
	switch kt {
	case P256, Secp256k1, Ed25519:
		return 32
	case P384:
		return 48
	case P521:
		return 66
	}
	return 0
}

func pad(b []byte, n int) []byte {
	if len(b) >= n {
		return b
	}
	out := make([]byte, n)
	copy(out[n-len(b):], b)
	return out
}

// NewKey derives the key named name of the given type deterministically.
func NewKey(kt, name string) *Key {
	seed := sha256.Sum256([]byte("verif-key|" + kt + "|" + name))
	k := &Key{Name: name, Type: kt}
	if kt == Ed25519 {
		k.Ed = ed25519.NewKeyFromSeed(seed[:])
		pub := k.Ed.Public().(ed25519.PublicKey)
		k.JWK = &jws.JWK{Kty: "OKP", Crv: "Ed25519", X: b64(pub)}
		return k
	}
	c := curveFor(kt)
	wide := sha512.Sum512(seed[:])
	d := new(big.Int).SetBytes(append(wide[:], seed[:]...))
	nm1 := new(big.Int).Sub(c.Params().N, big.NewInt(1))
	d.Mod(d, nm1)
	d.Add(d, big.NewInt(1))
	x, y := c.ScalarBaseMult(d.Bytes()) //nolint:staticcheck
	k.EC = &ecdsa.PrivateKey{PublicKey: ecdsa.PublicKey{Curve: c, X: x, Y: y}, D: d}
	sz := CoordSize(kt)
	k.JWK = &jws.JWK{Kty: "EC", Crv: kt, X: b64(pad(x.Bytes(), sz)), Y: b64(pad(y.Bytes(), sz))}
	return k
}

// Sign signs msg deterministically: Ed25519 per RFC 8032; ECDSA with a nonce derived from the key and
// the message (r||s fixed width).
func (k *Key) Sign(msg []byte) []byte {
	if k.Type == Ed25519 {
		return ed25519.Sign(k.Ed, msg)
	}
	h := hashFor(k.Type)
	h.Write(msg)
	digest := h.Sum(nil)
	c := k.EC.Curve
	n := c.Params().N
	e := hashToInt(digest, n)
	for ctr := 0; ; ctr++ {
		kh := sha512.Sum512(append(append(k.EC.D.Bytes(), digest...), byte(ctr)))
		kh2 := sha512.Sum512(kh[:])
		kk := new(big.Int).SetBytes(append(kh[:], kh2[:]...))
		kk.Mod(kk, new(big.Int).Sub(n, big.NewInt(1)))
		kk.Add(kk, big.NewInt(1))
		rx, _ := c.ScalarBaseMult(kk.Bytes()) //nolint:staticcheck
		r := new(big.Int).Mod(rx, n)
		if r.Sign() == 0 {
			continue
		}
		s := new(big.Int).Mul(r, k.EC.D)
		s.Add(s, e)
		s.Mul(s, new(big.Int).ModInverse(kk, n))
		s.Mod(s, n)
		if s.Sign() == 0 {
			continue
		}
		sz := CoordSize(k.Type)
		return append(pad(r.Bytes(), sz), pad(s.Bytes(), sz)...)
	}
}

func hashToInt(digest []byte, n *big.Int) *big.Int {
	orderBits := n.BitLen()
	orderBytes := (orderBits + 7) / 8
	if len(digest) > orderBytes {
		digest = digest[:orderBytes]
	}
	ret := new(big.Int).SetBytes(digest)
	excess := len(digest)*8 - orderBits
	if excess > 0 {
		ret.Rsh(ret, uint(excess))
	}
	return ret
}

// Order returns the group order for EC keys.
func (k *Key) Order() *big.Int { return k.EC.Curve.Params().N }

// Public returns the crypto public key.
func (k *Key) Public() interface{} {
	if k.Type == Ed25519 {
		return k.Ed.Public().(ed25519.PublicKey)
	}
	return &k.EC.PublicKey
}

func (k *Key) String() string { return fmt.Sprintf("%s/%s", k.Type, k.Name) }

// ShortCoordKey returns a deterministic EC key of the given type whose X (which=="x") or Y coordinate has a leading
// zero byte when written at full width (big.Int.Bytes() is one byte shorter); found by scanning key names.
func ShortCoordKey(kt, which string) *Key { return ShortCoordKeyN(kt, which, 0) }

// ShortCoordKeyN returns the n-th such key.
func ShortCoordKeyN(kt, which string, n int) *Key {
	for i := 0; ; i++ {
		k := NewKey(kt, "short-"+which+"/"+itoa(i))
		c := k.EC.X
		if which == "y" {
			c = k.EC.Y
		}
		if len(c.Bytes()) < CoordSize(kt) {
			if n == 0 {
				return k
			}
			n--
		}
	}
}

func itoa(i int) string { return fmt.Sprintf("%d", i) }
