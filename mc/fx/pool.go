package fx

import (
	"encoding/json"
	"fmt"

	"github.com/trustbloc/sidetree-core-go/pkg/api/operation"

	"verif/mc/ref/sidetree"
)

// PoolOp is a pre-built signed request with its abstract meaning.
type PoolOp struct {
	ID   string
	Type operation.Type
	Req  []byte
	Abs  sidetree.Op // template (no coordinates)
	Kind string      // "legit", "dupcreate", or forged kind a..h
	Of   string      // for forged: the legitimate operation it imitates
}

// Pool is the operation pool of one DID.
type Pool struct {
	KT      string
	Code    uint
	Variant string // ok | invalid | applyfails  (delta status of the base create)
	Suffix  string
	Ops     map[string]*PoolOp
	Order   []string
	Keys    map[string]*Key
}

func (p *Pool) add(o *PoolOp) {
	if _, dup := p.Ops[o.ID]; dup {
		panic("duplicate pool id " + o.ID)
	}
	o.Abs.ID = o.ID
	o.Abs.Type = string(o.Type)
	p.Ops[o.ID] = o
	p.Order = append(p.Order, o.ID)
}

// Get returns the pool op.
func (p *Pool) Get(id string) *PoolOp {
	o, ok := p.Ops[id]
	if !ok {
		panic("no pool op " + id)
	}
	return o
}

// Placed is a pool operation anchored at a coordinate.
type Placed struct {
	Op        *PoolOp
	Time, Num uint64
	Published bool
	Version   uint64
	// Unknown: the protocol client cannot serve Version (the lookup fails): the operation cannot be interpreted and is ignored
	Unknown bool
}

// Ref is the canonical reference of a published placement.
func (pl Placed) Ref() string {
	if !pl.Published {
		return ""
	}
	return fmt.Sprintf("ref%d.%d", pl.Time, pl.Num)
}

// Anchored builds the anchored operation handed to the store.
func (pl Placed) Anchored(suffix string) *operation.AnchoredOperation {
	ao := &operation.AnchoredOperation{
		Type: pl.Op.Type, UniqueSuffix: suffix, OperationRequest: pl.Op.Req,
		TransactionTime: pl.Time, TransactionNumber: pl.Num, ProtocolVersion: pl.Version,
		CanonicalReference: pl.Ref(),
	}
	if pl.Published {
		ao.EquivalentReferences = []string{"eq-" + pl.Ref()}
	}
	return ao
}

// Abstract returns the abstract operation for the reference model.
func (pl Placed) Abstract() *sidetree.Op {
	a := pl.Op.Abs
	if pl.Unknown {
		a.ParseOK = false
	}
	a.Time, a.Num, a.Published, a.Ref = pl.Time, pl.Num, pl.Published, pl.Ref()
	if pl.Published {
		a.Equiv = []string{"eq-" + pl.Ref()}
	}
	return &a
}

// Key string of a placement (for canonical state keys).
func (pl Placed) Key() string {
	p := "u"
	if pl.Published {
		p = "p"
	}
	return fmt.Sprintf("%s@%d.%d%s", pl.Op.ID, pl.Time, pl.Num, p)
}

func svc(id string) []interface{} {
	return []interface{}{AddServicePatch(id, "https://example.com/"+id)}
}

// failingPatch is a valid delta whose application fails only at its last patch: the patches before it (a key, a service, an
// alias - the in-place kinds) apply first, so a result that keeps their effect is visible as a changed document.
var failingPatch = []interface{}{
	map[string]interface{}{"action": "add-public-keys", "publicKeys": []interface{}{KeyEntry("partial", NewKey(P256, "pool/partial"), []interface{}{"authentication"})}},
	AddServicePatch("partial", "https://example.com/partial"),
	map[string]interface{}{"action": "add-also-known-as", "uris": []interface{}{"https://partial.example"}},
	JSONPatch(JOp("remove", "/absent", nil)),
}
var invalidPatch = []interface{}{map[string]interface{}{"action": "add-public-keys", "publicKeys": []interface{}{
	map[string]interface{}{"id": "bad id!", "type": "JsonWebKey2020", "publicKeyJwk": map[string]interface{}{"kty": "OKP", "crv": "Ed25519", "x": "AA"}}}}}

// Window used by the "~w" operations: far in the future relative to the anchoring grid.
const (
	LateFrom  = 1000
	LateUntil = 2000
)

// NewPool builds the operation pool for one key type / hash algorithm / base-create variant.
func NewPool(kt string, code uint, variant string) *Pool {
	p := &Pool{KT: kt, Code: code, Variant: variant, Ops: map[string]*PoolOp{}, Keys: map[string]*Key{}}
	for _, n := range []string{"r0", "r1", "r2", "r1b", "u0", "u1", "u2", "u3", "u1b", "v0", "v1", "v0b", "w0", "a0", "a1"} {
		p.Keys[n] = NewKey(kt, n+"/"+variant)
	}
	k := func(n string) *Key { return p.Keys[n] }
	c := func(n string) string { return Commit(k(n), code) }

	// ---- creates
	d0 := []interface{}{AddKeyPatch("k0", k("a0")), AddServicePatch("s0", "https://example.com/s0")}
	createPatches := d0
	createDelta := sidetree.DeltaOK
	switch variant {
	case "alias":
		// the created document also carries an alias and a foreign member: a recover (patches applied to an EMPTY document) leaves
		// nothing of them
		createPatches = append(append([]interface{}{}, d0...),
			map[string]interface{}{"action": "add-also-known-as", "uris": []interface{}{"https://alias.example/created"}},
			JSONPatch(JOp("add", "/note", "created")))
	case "invalid":
		createPatches, createDelta = invalidPatch, sidetree.DeltaInvalid
	case "applyfails":
		createPatches, createDelta = failingPatch, sidetree.DeltaApplyFails
	}
	origin := "origin-create"
	cs := &CreateSpec{RecoveryCommit: c("r0"), UpdateCommit: c("u0"), Patches: createPatches, Code: code, AnchorOrigin: origin}
	req, suffix := Create(cs)
	p.Suffix = suffix
	createAbs := sidetree.Op{ParseOK: true, NextUpdate: c("u0"), NextRecovery: c("r0"), Delta: createDelta, Patches: createPatches, AnchorOrigin: origin}
	p.add(&PoolOp{ID: "C", Type: operation.TypeCreate, Req: req, Abs: createAbs, Kind: "legit"})
	// duplicate create, same suffix data, other delta (hash mismatch)
	csh := *cs
	csh.DeltaRaw = Delta(c("a0"), svc("evil"))
	reqh, sh := Create(&csh)
	if sh != suffix {
		panic("suffix changed")
	}
	habs := createAbs
	habs.Delta = sidetree.DeltaHashMismatch
	p.add(&PoolOp{ID: "C~h", Type: operation.TypeCreate, Req: reqh, Abs: habs, Kind: "dupcreate"})
	// duplicate create, same suffix data, delta null
	p.add(&PoolOp{ID: "C~n", Type: operation.TypeCreate, Req: []byte(fmt.Sprintf(`{"type":"create","suffixData":%s}`, string(mustCanonSuffix(cs)))), Abs: habs, Kind: "dupcreate"})

	// stored create that the applier refuses (no suffix data): skipped, a later create of the same DID still defines it
	xabs := createAbs
	xabs.ParseOK = false
	p.add(&PoolOp{ID: "C~x", Type: operation.TypeCreate, Req: []byte(`{"type":"create","suffixData":null,"delta":null}`), Abs: xabs, Kind: "dupcreate"})

	upd := func(id, reveal, next string, patches []interface{}, mod func(*OpSpec), abs func(*sidetree.Op), kind, of string) {
		s := &OpSpec{Type: "update", Suffix: suffix, SignKey: k(reveal), NextUpdate: next, Patches: patches, Code: code}
		a := sidetree.Op{ParseOK: true, Reveals: c(reveal), Authorized: true, NextUpdate: next, Delta: sidetree.DeltaOK, Patches: patches}
		if mod != nil {
			mod(s)
		}
		a.From, a.Until = s.From, s.Until
		if abs != nil {
			abs(&a)
		}
		p.add(&PoolOp{ID: id, Type: operation.TypeUpdate, Req: s.Build(), Abs: a, Kind: kind, Of: of})
	}
	rec := func(id, reveal, nextRec, nextUpd string, patches []interface{}, mod func(*OpSpec), abs func(*sidetree.Op), kind, of string) {
		org := "origin-" + id
		s := &OpSpec{Type: "recover", Suffix: suffix, SignKey: k(reveal), NextRecov: nextRec, NextUpdate: nextUpd, Patches: patches, Code: code, Origin: org}
		a := sidetree.Op{ParseOK: true, Reveals: c(reveal), Authorized: true, NextUpdate: nextUpd, NextRecovery: nextRec, Delta: sidetree.DeltaOK, Patches: patches, AnchorOrigin: org}
		if mod != nil {
			mod(s)
		}
		a.From, a.Until = s.From, s.Until
		if abs != nil {
			abs(&a)
		}
		p.add(&PoolOp{ID: id, Type: operation.TypeRecover, Req: s.Build(), Abs: a, Kind: kind, Of: of})
	}
	dea := func(id, reveal string, mod func(*OpSpec), abs func(*sidetree.Op), kind, of string) {
		s := &OpSpec{Type: "deactivate", Suffix: suffix, SignKey: k(reveal), Code: code}
		a := sidetree.Op{ParseOK: true, Reveals: c(reveal), Authorized: true}
		if mod != nil {
			mod(s)
		}
		a.From, a.Until = s.From, s.Until
		if abs != nil {
			abs(&a)
		}
		p.add(&PoolOp{ID: id, Type: operation.TypeDeactivate, Req: s.Build(), Abs: a, Kind: kind, Of: of})
	}
	late := func(s *OpSpec) { s.From, s.Until = LateFrom, LateUntil }
	early := func(s *OpSpec) { s.From, s.Until = 1, 100 }
	hashMismatch := func(s *OpSpec) { s.DeltaRaw = Delta(s.NextUpdate, svc("evil")) }
	setDelta := func(st string) func(*sidetree.Op) { return func(a *sidetree.Op) { a.Delta = st } }

	// ---- legitimate updates and variants
	upd("U01", "u0", c("u1"), svc("u01"), nil, nil, "legit", "")
	upd("U01b", "u0", c("u1b"), svc("u01b"), nil, nil, "legit", "")
	upd("U01i", "u0", c("u1"), svc("u01i"), early, nil, "legit", "") // explicit window containing the grid
	upd("U12", "u1", c("u2"), svc("u12"), nil, nil, "legit", "")
	upd("U23", "u2", c("u3"), svc("u23"), nil, nil, "legit", "")
	upd("U1b2", "u1b", c("u2"), svc("u1b2"), nil, nil, "legit", "")
	upd("U01~p", "u0", c("u1"), failingPatch, nil, setDelta(sidetree.DeltaApplyFails), "legit", "")
	// an update whose delta adds two keys and then re-adds the FIRST one with other purposes (replace in place, no second entry) and
	// removes more ids than there are keys (absent ids are ignored)
	{
		dk1, dk2 := NewKey(P256, "pool/dk1"), NewKey(P256, "pool/dk2")
		addKeys := func(es ...interface{}) interface{} {
			return map[string]interface{}{"action": "add-public-keys", "publicKeys": es}
		}
		upd("U01k", "u0", c("u1"), []interface{}{
			addKeys(KeyEntry("dk1", dk1, []interface{}{"authentication"}), KeyEntry("dk2", dk2, []interface{}{"assertionMethod"})),
			addKeys(KeyEntry("dk1", dk2, []interface{}{"keyAgreement"})),
			map[string]interface{}{"action": "remove-public-keys", "ids": []interface{}{"dk9", "dk8", "dk7"}},
		}, nil, nil, "legit", "")
	}
	upd("U01~w", "u0", c("u1"), svc("u01w"), late, nil, "legit", "")
	upd("U01~h", "u0", c("u1"), svc("u01h"), hashMismatch, setDelta(sidetree.DeltaHashMismatch), "legit", "")
	upd("U01~v", "u0", c("u1"), invalidPatch, nil, setDelta(sidetree.DeltaInvalid), "legit", "")
	// two defects at once: an unusable delta AND anchored outside the signed window - ignored like any update with an unusable delta
	// (the out-of-window rule "consumes its commitment" is for updates whose delta is usable)
	// an update that adds an alias and a foreign member: a later recover (whose replace patch can only carry keys and services)
	// leaves nothing of them
	upd("U01a", "u0", c("u1"), []interface{}{
		map[string]interface{}{"action": "add-also-known-as", "uris": []interface{}{"https://alias.example/a"}},
		JSONPatch(JOp("add", "/note", "kept?")),
	}, nil, nil, "legit", "")
	upd("U01~vw", "u0", c("u1"), invalidPatch, late, setDelta(sidetree.DeltaInvalid), "legit", "")
	upd("U01~hw", "u0", c("u1"), svc("u01hw"), func(s *OpSpec) { hashMismatch(s); late(s) }, setDelta(sidetree.DeltaHashMismatch), "legit", "")
	upd("U10", "u1", c("u0"), svc("u10"), nil, nil, "legit", "")
	upd("U20", "u2", c("u0"), svc("u20"), nil, nil, "legit", "")
	upd("U00", "u0", c("u0"), svc("u00"), nil, nil, "legit", "")
	upd("V01", "v0", c("v1"), svc("v01"), nil, nil, "legit", "")
	// an update after the recover R01 whose next update commitment is the (already consumed) recovery commitment of r0: the update
	// chain and the recovery chain are separate, the update is legitimate
	upd("V0>r0", "v0", c("r0"), svc("v0r0"), nil, nil, "legit", "")
	upd("V0b1", "v0b", c("v1"), svc("v0b1"), nil, nil, "legit", "")
	upd("W01", "w0", c("v1"), svc("w01"), nil, nil, "legit", "")

	// ---- recovers
	rec("R01", "r0", c("r1"), c("v0"), svc("r01"), nil, nil, "legit", "")
	rec("R01b", "r0", c("r1b"), c("v0b"), svc("r01b"), nil, nil, "legit", "")
	rec("R12", "r1", c("r2"), c("w0"), svc("r12"), nil, nil, "legit", "")
	rec("R1b2", "r1b", c("r2"), c("w0"), svc("r1b2"), nil, nil, "legit", "")
	rec("R01~h", "r0", c("r1"), c("v0"), svc("r01h"), hashMismatch, setDelta(sidetree.DeltaHashMismatch), "legit", "")
	rec("R01~v", "r0", c("r1"), c("v0"), invalidPatch, nil, setDelta(sidetree.DeltaInvalid), "legit", "")
	rec("R01~a", "r0", c("r1"), c("v0"), failingPatch, nil, setDelta(sidetree.DeltaApplyFails), "legit", "")
	rec("R01~w", "r0", c("r1"), c("v0"), svc("r01w"), late, nil, "legit", "")
	rec("R01i", "r0", c("r1"), c("v0"), svc("r01i"), early, nil, "legit", "") // explicit window containing the grid
	// recovers whose next update commitment is one the update chain has used before (the create's / the one U01 installs): an
	// update anchored before such a recover fits its commitment but must not be applied on top of it
	rec("R0>u0", "r0", c("r1"), c("u0"), svc("r0u0"), nil, nil, "legit", "")
	rec("R0>u1", "r0", c("r1"), c("u1"), svc("r0u1"), nil, nil, "legit", "")
	rec("R10", "r1", c("r0"), c("u0"), svc("r10"), nil, nil, "legit", "")
	rec("R20", "r2", c("r0"), c("u0"), svc("r20"), nil, nil, "legit", "")
	// self loop: the parser refuses it in every mode
	rec("R00", "r0", c("r0"), c("v0"), svc("r00"), nil, func(a *sidetree.Op) { a.ParseOK = false }, "legit", "")

	// U01x: a legitimate update whose signed data also carries the members a deactivate reads (recoveryKey, didSuffix); the
	// forged deactivate Fx(D0) below re-uses its signed data verbatim
	upd("U01x", "u0", c("u1"), svc("u01x"), func(s *OpSpec) {
		s.SignedExtra = map[string]interface{}{"recoveryKey": JWKMap(k("r0"), ""), "didSuffix": suffix}
	}, nil, "legit", "")
	// ---- deactivates
	dea("D0", "r0", nil, nil, "legit", "")
	dea("D1", "r1", nil, nil, "legit", "")
	dea("D1b", "r1b", nil, nil, "legit", "")
	dea("D2", "r2", nil, nil, "legit", "")
	dea("D0~w", "r0", late, nil, "legit", "")
	dea("D0i", "r0", early, nil, "legit", "")

	// ---- forged variants
	type base struct {
		id, typ, reveal string
		nextRec, nextUp string
		mark            string
	}
	bases := []base{
		{"U01", "update", "u0", "", c("u1"), "u01"},
		{"U12", "update", "u1", "", c("u2"), "u12"},
		{"R01", "recover", "r0", c("r1"), c("v0"), "r01"},
		{"R12", "recover", "r1", c("r2"), c("w0"), "r12"},
		{"D0", "deactivate", "r0", "", "", ""},
		{"D1", "deactivate", "r1", "", "", ""},
	}
	otherSig := func(key *Key) []byte { return key.Sign([]byte("another.request")) }
	for _, b := range bases {
		b := b
		forged := func(kindID string, mod func(*OpSpec), abs func(*sidetree.Op)) {
			id := fmt.Sprintf("F%s(%s)", kindID, b.id)
			noAuth := func(a *sidetree.Op) {
				a.Authorized = false
				if abs != nil {
					abs(a)
				}
			}
			// forged operations try to take over: next commitments of the attacker, evil document
			m := func(s *OpSpec) {
				if mod != nil {
					mod(s)
				}
			}
			switch b.typ {
			case "update":
				upd(id, b.reveal, c("a1"), svc("evil"), m, noAuth, kindID, b.id)
			case "recover":
				// next recovery commitment of a second attacker key: a forged recover must not be refused merely
				// because it re-commits to the key it carries
				rec(id, b.reveal, c("a1"), c("w0"), svc("evil"), m, noAuth, kindID, b.id)
			case "deactivate":
				dea(id, b.reveal, m, noAuth, kindID, b.id)
			}
		}
		// positive control: the same hostile content, properly signed by the committed key. It must change the state
		// when anchored first - otherwise the forged variants below would be refused for an unrelated reason.
		switch b.typ {
		case "update":
			upd("E("+b.id+")", b.reveal, c("a1"), svc("evil"), nil, nil, "control", b.id)
		case "recover":
			rec("E("+b.id+")", b.reveal, c("a1"), c("w0"), svc("evil"), nil, nil, "control", b.id)
		case "deactivate":
			dea("E("+b.id+")", b.reveal, nil, nil, "control", b.id)
		}
		forged("a", func(s *OpSpec) { s.JWS = &JWSOpts{SigMut: func([]byte) []byte { return otherSig(s.SignKey) }} }, nil)
		forged("b", func(s *OpSpec) {
			s.JWS = &JWSOpts{PayloadMut: func(pl []byte) []byte {
				// insert "anchorFrom":1 as first member after signing (JCS order: anchorFrom sorts first)
				return append([]byte(`{"anchorFrom":1,`), pl[1:]...)
			}}
		}, func(a *sidetree.Op) { a.From = 1 })
		forged("c", func(s *OpSpec) { s.PayloadKey = s.SignKey; s.SignKey = k("a0") }, nil)
		forged("d", func(s *OpSpec) { s.SignKey = k("a0") }, func(a *sidetree.Op) { a.Authorized = true; a.Reveals = c("a0") })
		forged("e", func(s *OpSpec) {
			s.JWS = &JWSOpts{HeaderMut: func(h []byte) []byte {
				alg := "ES256"
				if AlgFor(kt) == "ES256" {
					alg = "EdDSA"
				}
				return []byte(`{"alg":"` + alg + `"}`)
			}}
		}, nil)
		forged("f0", func(s *OpSpec) { s.JWS = &JWSOpts{SigMut: func(b []byte) []byte { return make([]byte, len(b)) }} }, nil)
		forged("f1", func(s *OpSpec) { s.JWS = &JWSOpts{SigMut: func(b []byte) []byte { return b[:len(b)-1] }} }, nil)
		forged("f2", func(s *OpSpec) {
			s.JWS = &JWSOpts{SigMut: func(b []byte) []byte { return append(append([]byte{}, b...), 0) }}
		}, nil)
		forged("h", func(s *OpSpec) { s.RevealKey = s.SignKey; s.SignKey = k("a0") }, func(a *sidetree.Op) { a.ParseOK = false })
		// (r) attacker key revealed and signed (like d), plus an extra signed member "revealValue" holding the reveal value of the
		// committed key: the request's own reveal value decides which commitment the operation is tried against
		forged("r", func(s *OpSpec) {
			legit := s.SignKey
			s.SignKey = k("a0")
			s.SignedExtra = map[string]interface{}{"revealValue": Reveal(legit, code)}
		}, func(a *sidetree.Op) { a.Authorized = true; a.Reveals = c("a0") })
		// (s) like (h) - attacker key in the payload and as signer, the request's reveal value is the committed key's - plus an
		// extra signed member "revealValue" that matches the attacker key: only the request-level reveal value, which selects
		// the commitment, may be compared with the signing key
		forged("s", func(s *OpSpec) {
			s.RevealKey = s.SignKey
			s.SignKey = k("a0")
			s.SignedExtra = map[string]interface{}{"revealValue": Reveal(k("a0"), code)}
		}, func(a *sidetree.Op) { a.ParseOK = false })
		// (w) committed key in the payload, signed by the attacker, and a signed window that fails at every grid time:
		// the out-of-window shortcut must not be reachable without a valid signature
		forged("w", func(s *OpSpec) { s.PayloadKey = s.SignKey; s.SignKey = k("a0"); s.From, s.Until = LateFrom, LateUntil }, nil)
		if b.typ == "update" {
			// (v) the legitimate update's signed data VERBATIM (signed by the committed key, verifiable) next to the attacker's
			// own delta: only the delta hash inside the signed data ties the delta to the signature. Whatever an implementation
			// remembers about a signed-data string it has verified before (the legitimate operation is resolved first, by the same
			// components), the delta beside it is not the signed one. Updates only: a recover's signed data carries its own next
			// commitments, so the holder's recover next to a foreign delta is still the holder's recover (empty document).
			var lx map[string]interface{}
			if err := json.Unmarshal(p.Ops[b.id].Req, &lx); err != nil {
				panic(err)
			}
			forged("v", func(s *OpSpec) { s.Extra = map[string]interface{}{"signedData": lx["signedData"]} },
				func(a *sidetree.Op) { a.Delta = sidetree.DeltaHashMismatch })
		}
		if b.typ == "deactivate" {
			forged("g",func(s *OpSpec) { s.SignedSuffix = "EiOtherSuffix" }, func(a *sidetree.Op) { a.ParseOK = false; a.Authorized = true })
		}
		if b.id == "D0" {
			// (x) cross-type replay: the signed data of the legitimate update U01x (signed by the update key, naming the recovery
			// key in an extra member) inside a deactivate that reveals the recovery key. Whatever an implementation remembers
			// about a signed-data string it has verified before, this deactivate is not signed by the recovery key.
			var ux map[string]interface{}
			if err := json.Unmarshal(p.Ops["U01x"].Req, &ux); err != nil {
				panic(err)
			}
			forged("x", func(s *OpSpec) { s.Extra = map[string]interface{}{"signedData": ux["signedData"]} }, nil)
		}
		// tampered copies: the legitimate operation's own next commitments (and an evil document), with a signature that does not
		// verify. Whatever bookkeeping an implementation does with an operation's next commitment before it has verified the
		// operation must not affect the legitimate operation that commits to the same value.
		tampered := func(kindID string, mod func(*OpSpec)) {
			id := fmt.Sprintf("F%s(%s)", kindID, b.id)
			noAuth := func(a *sidetree.Op) { a.Authorized = false }
			switch b.typ {
			case "update":
				upd(id, b.reveal, b.nextUp, svc("evil"), mod, noAuth, kindID, b.id)
			case "recover":
				rec(id, b.reveal, b.nextRec, b.nextUp, svc("evil"), mod, noAuth, kindID, b.id)
			}
		}
		if b.typ != "deactivate" {
			tampered("t0", func(s *OpSpec) { s.JWS = &JWSOpts{SigMut: func([]byte) []byte { return otherSig(s.SignKey) }} })
			tampered("t1", func(s *OpSpec) { s.PayloadKey = s.SignKey; s.SignKey = k("a0") })
		}
	}
	return p
}

func mustCanonSuffix(cs *CreateSpec) []byte {
	delta := Delta(cs.UpdateCommit, cs.Patches)
	sd := map[string]interface{}{"deltaHash": ModelHash(cs.Code, delta), "recoveryCommitment": cs.RecoveryCommit}
	if cs.AnchorOrigin != nil {
		sd["anchorOrigin"] = cs.AnchorOrigin
	}
	b, err := json.Marshal(sd)
	if err != nil {
		panic(err)
	}
	return b
}
