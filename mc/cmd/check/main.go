// Command check runs one property's decision procedure.
package main

import (
	"encoding/json"
	"flag"
	"fmt"
	"os"
	"runtime/debug"
	"strconv"
	"time"

	"verif/mc/covreg"
	"verif/mc/hx"
	"verif/mc/props"
)

func main() {
	tier := flag.String("tier", "", "quick|thorough")
	replay := flag.String("replay", "", "replay file")
	only := flag.String("only", "", "case id")
	budget := flag.Duration("budget", 0, "internal time budget")
	worker := flag.Bool("worker", false, "run as crash-isolated worker (internal)")
	racePass := flag.Bool("race-pass", false, "run the free-running supporting pass (binary built with -race; internal)")
	flag.Usage = func() { fmt.Fprintln(os.Stderr, "usage: check [flags] <ID>") }
	flag.Parse()
	if flag.NArg() != 1 {
		flag.Usage()
		os.Exit(2)
	}
	id := flag.Arg(0)
	if *racePass {
		f, ok := props.RacePass[id]
		if !ok {
			os.Exit(2)
		}
		os.Exit(f())
	}
	if *worker {
		w, ok := props.Workers[id]
		if !ok {
			os.Exit(2)
		}
		hx.ServeWorker(w)
		return
	}
	c, ok := props.Registry[id]
	if !ok {
		fmt.Fprintf(os.Stderr, "unknown property %s\n", id)
		os.Exit(2)
	}
	if *tier == "" {
		*tier = os.Getenv("VERIF_TIER")
	}
	if *tier != "thorough" {
		*tier = "quick"
	}
	seed, _ := strconv.ParseInt(os.Getenv("VERIF_SEED"), 10, 64)
	r := hx.NewRun(id, *tier, seed)
	r.Only = *only
	if *budget > 0 {
		r.Budget = *budget
	} else if *tier == "quick" {
		r.Budget = 8 * time.Minute
	} else {
		r.Budget = 3 * time.Hour
	}
	if *replay != "" {
		b, err := os.ReadFile(*replay)
		if err != nil {
			fmt.Fprintln(os.Stderr, err)
			os.Exit(2)
		}
		var rf struct {
			CaseID string `json:"case_id"`
			Tier   string `json:"tier"`
		}
		if err := json.Unmarshal(b, &rf); err != nil {
			fmt.Fprintln(os.Stderr, err)
			os.Exit(2)
		}
		r.Only = rf.CaseID
		if rf.Tier != "" {
			r.Tier = rf.Tier
		}
	}
	defer func() {
		if p := recover(); p != nil {
			st := debug.Stack()
			if hx.ReportPanic(p, st, "main") { // the code under test crashed on an explored input
				os.Exit(r.Finish(props.Level[id]))
			}
			fmt.Fprintf(os.Stderr, "HARNESS ERROR property=%s: %v\n%s\n", id, p, st)
			os.Exit(2)
		}
	}()
	c(r)
	code := r.Finish(props.Level[id])
	covreg.Dump()
	os.Exit(code)
}
