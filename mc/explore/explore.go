// Package explore is a deviation-bounded stateless explorer: real goroutines run one at a time under a cooperative
// scheduler; every hooked synchronisation operation is a scheduling point, every environment answer a choice point.
// Executions are enumerated depth-first over choice prefixes; a deviation is a preemption (switching away from a
// thread that could continue) or a non-default environment answer.
package explore

import (
	"fmt"
	"sync"
)

// Point describes one recorded choice point.
type Point struct {
	Env     bool   // environment choice (true) or thread choice (false)
	N       int    // number of alternatives
	Chosen  int    // index taken
	Label   string // kind/object (thread points: the pending operation of the chosen thread)
	Preempt bool   // thread point: the previously running thread was still enabled (alternatives >0 are preemptions)
	Thread  int    // thread that made an env choice / that was chosen
}

type thread struct {
	id      int
	name    string
	wake    chan struct{}
	done    bool
	pending string      // label of the operation the thread is about to perform
	enabled func() bool // nil = always enabled
}

// Sched is one controlled execution.
type Sched struct {
	threads []*thread
	cur     int
	yield   chan int // thread id that reached a point (or finished)
	prefix  []int
	Points  []Point
	Trace   []string // human-readable schedule
	err     error
	mu      sync.Mutex
	maxPts  int
	aborted bool
	idSeq   int
}

// Current returns the id of the running thread.
func (s *Sched) Current() int { return s.cur }

// NextID numbers synchronisation objects in order of first use within this execution.
func (s *Sched) NextID() int {
	s.idSeq++
	return s.idSeq
}

var (
	activeMu sync.Mutex
	active   *Sched
)

// Active returns the scheduler of the execution in progress (nil when code runs free).
func Active() *Sched {
	activeMu.Lock()
	defer activeMu.Unlock()
	return active
}

func setActive(s *Sched) {
	activeMu.Lock()
	active = s
	activeMu.Unlock()
}

// ErrDiverged is returned when a replayed prefix does not match the execution.
type ErrDiverged struct{ Msg string }

func (e ErrDiverged) Error() string { return "schedule divergence: " + e.Msg }

// Deadlock is reported when no thread is enabled but not all have finished.
type Deadlock struct{ Waiting []string }

func (d Deadlock) Error() string { return fmt.Sprintf("deadlock: waiting threads %v", d.Waiting) }

type abortSignal struct{}

// Run executes the thread bodies under the scheduler following prefix (then default choices).
// It returns the recorded points; err is a Deadlock, a divergence, a panic of a thread, or nil.
func Run(prefix []int, names []string, bodies []func(), maxPoints int) (s *Sched, err error) {
	s = &Sched{yield: make(chan int), prefix: prefix, cur: -1, maxPts: maxPoints}
	for i := range bodies {
		s.threads = append(s.threads, &thread{id: i, name: names[i], wake: make(chan struct{}), pending: "start"})
	}
	setActive(s)
	defer setActive(nil)
	var panics []string
	var pmu sync.Mutex
	for i, b := range bodies {
		t, body := s.threads[i], b
		go func() {
			<-t.wake
			defer func() {
				if p := recover(); p != nil {
					if _, isAbort := p.(abortSignal); !isAbort {
						pmu.Lock()
						panics = append(panics, fmt.Sprintf("thread %s panicked: %v", t.name, p))
						pmu.Unlock()
					}
				}
				t.done = true
				s.yield <- t.id
			}()
			body()
		}()
	}
	for {
		// collect enabled threads in canonical order: current first (if enabled), then ascending ids
		var en []*thread
		curEnabled := false
		if s.cur >= 0 {
			c := s.threads[s.cur]
			if !c.done && (c.enabled == nil || c.enabled()) {
				en = append(en, c)
				curEnabled = true
			}
		}
		for _, t := range s.threads {
			if t.id == s.cur || t.done {
				continue
			}
			if t.enabled == nil || t.enabled() {
				en = append(en, t)
			}
		}
		if len(en) == 0 {
			var waiting []string
			for _, t := range s.threads {
				if !t.done {
					waiting = append(waiting, t.name+":"+t.pending)
				}
			}
			if len(waiting) == 0 {
				break
			}
			s.abortAll()
			return s, Deadlock{waiting}
		}
		choice := 0
		if len(en) > 1 {
			choice, err = s.take(len(en), false, curEnabled, "")
			if err != nil {
				s.abortAll()
				return s, err
			}
		}
		t := en[choice]
		if len(en) > 1 {
			s.Points[len(s.Points)-1].Label = t.name + ":" + t.pending
			s.Points[len(s.Points)-1].Thread = t.id
		}
		s.Trace = append(s.Trace, t.name+":"+t.pending)
		s.cur = t.id
		t.wake <- struct{}{}
		<-s.yield
		if len(s.Points) > s.maxPts {
			s.abortAll()
			return s, fmt.Errorf("execution exceeded %d choice points (horizon)", s.maxPts)
		}
	}
	if len(panics) > 0 {
		return s, fmt.Errorf("%v", panics)
	}
	return s, nil
}

// abortAll unblocks every parked thread so that its goroutine terminates.
func (s *Sched) abortAll() {
	s.aborted = true
	for _, t := range s.threads {
		for !t.done {
			t.wake <- struct{}{}
			<-s.yield
		}
	}
}

func (s *Sched) take(n int, env bool, preempt bool, label string) (int, error) {
	i := len(s.Points)
	c := 0
	if i < len(s.prefix) {
		c = s.prefix[i]
		if c >= n {
			return 0, ErrDiverged{fmt.Sprintf("point %d (%s): prefix wants alternative %d of %d", i, label, c, n)}
		}
	}
	s.Points = append(s.Points, Point{Env: env, N: n, Chosen: c, Label: label, Preempt: preempt})
	return c, nil
}

// Yield is a scheduling point: the calling thread announces its next operation and lets the scheduler decide who
// runs. enabled (may be nil) tells whether the operation can proceed.
func (s *Sched) Yield(label string, enabled func() bool) {
	t := s.threads[s.cur]
	t.pending, t.enabled = label, enabled
	s.yield <- t.id
	<-t.wake
	if s.aborted {
		panic(abortSignal{})
	}
	t.enabled = nil
}

// Choose is an environment choice point with n alternatives (0 is the default answer).
func (s *Sched) Choose(n int, label string) int {
	c, err := s.take(n, true, false, label)
	if err != nil {
		panic(err)
	}
	s.Points[len(s.Points)-1].Thread = s.cur
	if c != 0 {
		s.Trace = append(s.Trace, fmt.Sprintf("env:%s=%d", label, c))
	}
	return c
}

// Stats of an exploration.
type Stats struct {
	Executions   int64
	Points       int64
	MaxPoints    int
	Deadlocks    int64
	BoundReached int
}

// Cost of choosing alternative alt at point p.
func cost(p Point, alt int) int {
	if alt == 0 {
		return 0
	}
	if p.Env {
		return 1
	}
	if p.Preempt {
		return 1
	}
	return 0
}

// Explore enumerates every execution reachable from prefix with at most bound deviations in total (deviations
// already spent in prefix count). newRun builds fresh thread bodies for one execution and returns a check function
// that is called with the finished execution.
func Explore(prefix []int, bound int, maxPoints int, newRun func() (names []string, bodies []func(), check func(s *Sched, err error)), st *Stats, stop func() bool) {
	var rec func(prefix []int, parent []Point)
	rec = func(prefix []int, parent []Point) {
		if stop != nil && stop() {
			return
		}
		names, bodies, check := newRun()
		s, err := Run(prefix, names, bodies, maxPoints)
		// determinism guard: the replayed part must look exactly like the parent execution
		for i := 0; parent != nil && i < len(prefix) && i < len(s.Points) && i < len(parent); i++ {
			if s.Points[i].Env != parent[i].Env || s.Points[i].N != parent[i].N || (i < len(prefix)-1 && s.Points[i].Label != parent[i].Label) {
				panic(ErrDiverged{fmt.Sprintf("replay of prefix %v diverges at point %d: %+v vs parent %+v", prefix, i, s.Points[i], parent[i])})
			}
		}
		st.Executions++
		st.Points += int64(len(s.Points))
		if len(s.Points) > st.MaxPoints {
			st.MaxPoints = len(s.Points)
		}
		if _, ok := err.(Deadlock); ok {
			st.Deadlocks++
		}
		check(s, err)
		if _, div := err.(ErrDiverged); div {
			return
		}
		spent := 0
		for i, p := range s.Points {
			if i >= len(prefix) {
				for alt := 1; alt < p.N; alt++ {
					if spent+cost(p, alt) <= bound {
						np := make([]int, i+1)
						for k := 0; k < i; k++ {
							np[k] = s.Points[k].Chosen
						}
						np[i] = alt
						rec(np, s.Points)
					}
				}
			}
			spent += cost(p, p.Chosen)
		}
	}
	rec(prefix, nil)
}

// Children lists the immediate child prefixes of the execution of prefix (used to shard the search).
func Children(s *Sched, prefixLen int, bound int) [][]int {
	var out [][]int
	spent := 0
	for i, p := range s.Points {
		if i >= prefixLen {
			for alt := 1; alt < p.N; alt++ {
				if spent+cost(p, alt) <= bound {
					np := make([]int, i+1)
					for k := 0; k < i; k++ {
						np[k] = s.Points[k].Chosen
					}
					np[i] = alt
					out = append(out, np)
				}
			}
		}
		spent += cost(p, p.Chosen)
	}
	return out
}
