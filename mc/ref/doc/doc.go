// Package doc is the independent ordered-map reference model of the internal Sidetree document and of
// patch application (C03, C11, C17, C20). Documents are plain JSON trees (map[string]interface{}).
package doc

import (
	"encoding/json"
	"errors"
	"fmt"
	"strconv"
	"strings"

	"verif/mc/ref/jcs"
)

// Doc is an internal document.
type Doc = map[string]interface{}

// Clone deep-copies a JSON tree.
func Clone(x interface{}) interface{} {
	switch t := x.(type) {
	case map[string]interface{}:
		m := make(map[string]interface{}, len(t))
		for k, v := range t {
			m[k] = Clone(v)
		}
		return m
	case []interface{}:
		a := make([]interface{}, len(t))
		for i, v := range t {
			a[i] = Clone(v)
		}
		return a
	}
	return x
}

// Norm returns the canonical JSON of a document with empty / null key, service and alias sections
// dropped (the statement does not distinguish an empty section from an absent one).
func Norm(d Doc) string {
	if d == nil {
		return "<nil>"
	}
	c := Clone(d).(Doc)
	for _, sec := range []string{"publicKey", "service", "alsoKnownAs"} {
		v, ok := c[sec]
		if !ok {
			continue
		}
		if v == nil {
			delete(c, sec)
		} else if a, isArr := v.([]interface{}); isArr && len(a) == 0 {
			delete(c, sec)
		}
	}
	b, err := jcs.Canonical(jcs.FromGo(toPlain(c)))
	if err != nil {
		return "<err:" + err.Error() + ">"
	}
	return string(b)
}

// toPlain round-trips through encoding/json so that typed slices/maps become plain trees.
func toPlain(x interface{}) interface{} {
	b, err := json.Marshal(x)
	if err != nil {
		panic(err)
	}
	var v interface{}
	if err := json.Unmarshal(b, &v); err != nil {
		panic(err)
	}
	return v
}

// Plain converts any JSON-marshalable value to a plain tree.
func Plain(x interface{}) interface{} { return toPlain(x) }

func entries(v interface{}) []interface{} {
	a, _ := v.([]interface{})
	var out []interface{}
	for _, e := range a {
		if _, ok := e.(map[string]interface{}); ok {
			out = append(out, e)
		}
	}
	return out
}

func idOf(e interface{}) string {
	m, _ := e.(map[string]interface{})
	s, _ := m["id"].(string)
	return s
}

func strs(v interface{}) []string {
	a, _ := v.([]interface{})
	var out []string
	for _, e := range a {
		if s, ok := e.(string); ok {
			out = append(out, s)
		}
	}
	return out
}

// addSet implements "adding an existing id replaces that entry in place, adding a new id appends".
func addSet(cur []interface{}, add []interface{}) []interface{} {
	out := append([]interface{}{}, cur...)
	for _, n := range add {
		replaced := false
		for i := range out {
			if idOf(out[i]) == idOf(n) {
				out[i] = Clone(n)
				replaced = true
			}
		}
		if !replaced {
			out = append(out, Clone(n))
		}
	}
	return out
}

func removeSet(cur []interface{}, ids []string) []interface{} {
	rm := map[string]bool{}
	for _, id := range ids {
		rm[id] = true
	}
	out := []interface{}{}
	for _, e := range cur {
		if !rm[idOf(e)] {
			out = append(out, e)
		}
	}
	return out
}

var valueKey = map[string]string{
	"add-public-keys": "publicKeys", "remove-public-keys": "ids", "add-services": "services", "remove-services": "ids",
	"ietf-json-patch": "patches", "replace": "document", "add-also-known-as": "uris", "remove-also-known-as": "uris",
}

// ApplyAll applies the patches in order to a copy of d; it fails as a whole.
func ApplyAll(d Doc, patches []interface{}) (Doc, error) {
	cur := Clone(d).(Doc)
	for _, p := range patches {
		var err error
		cur, err = Apply(cur, p)
		if err != nil {
			return nil, err
		}
	}
	return cur, nil
}

// Apply applies one patch to d (d is consumed).
func Apply(d Doc, p interface{}) (Doc, error) {
	pm, ok := p.(map[string]interface{})
	if !ok {
		return nil, errors.New("patch is not an object")
	}
	action, ok := pm["action"].(string)
	if !ok {
		return nil, errors.New("missing action")
	}
	vk, ok := valueKey[action]
	if !ok {
		return nil, fmt.Errorf("unsupported action %s", action)
	}
	val, ok := pm[vk]
	if !ok {
		return nil, fmt.Errorf("missing %s", vk)
	}
	switch action {
	case "add-public-keys":
		d["publicKey"] = addSet(entries(d["publicKey"]), entries(val))
	case "remove-public-keys":
		d["publicKey"] = removeSet(entries(d["publicKey"]), strs(val))
	case "add-services":
		d["service"] = addSet(entries(d["service"]), entries(val))
	case "remove-services":
		d["service"] = removeSet(entries(d["service"]), strs(val))
	case "add-also-known-as":
		cur := strs(d["alsoKnownAs"])
		out := []interface{}{}
		have := map[string]bool{}
		for _, u := range cur {
			out = append(out, u)
			have[u] = true
		}
		for _, u := range strs(val) {
			if !have[u] {
				out = append(out, u)
				// note: a URI repeated inside one patch is appended once per occurrence by the model's
				// "ordered set" reading only if absent before the patch; alphabets never repeat within a patch.
			}
		}
		d["alsoKnownAs"] = out
	case "remove-also-known-as":
		rm := map[string]bool{}
		for _, u := range strs(val) {
			rm[u] = true
		}
		out := []interface{}{}
		for _, u := range strs(d["alsoKnownAs"]) {
			if !rm[u] {
				out = append(out, u)
			}
		}
		d["alsoKnownAs"] = out
	case "replace":
		rd, ok := val.(map[string]interface{})
		if !ok {
			return nil, errors.New("replace document is not an object")
		}
		nd := Doc{}
		if v, ok := rd["publicKeys"]; ok {
			nd["publicKey"] = Clone(v)
		}
		if v, ok := rd["services"]; ok {
			nd["service"] = Clone(v)
		}
		return nd, nil
	case "ietf-json-patch":
		ops, ok := val.([]interface{})
		if !ok {
			return nil, errors.New("json patch is not a list")
		}
		var root interface{} = d
		for _, op := range ops {
			var err error
			root, err = jsonPatchOp(root, op)
			if err != nil {
				return nil, err
			}
		}
		nd, ok := root.(map[string]interface{})
		if !ok {
			return nil, errors.New("document is not an object after patch")
		}
		return nd, nil
	}
	return d, nil
}

// ErrUnmodelled is returned for JSON-patch shapes this reference does not define.
var ErrUnmodelled = errors.New("unmodelled json patch shape")

func splitPtr(p string) ([]string, error) {
	if p == "" {
		return nil, nil
	}
	if !strings.HasPrefix(p, "/") {
		return nil, errors.New("bad pointer")
	}
	parts := strings.Split(p[1:], "/")
	for i := range parts {
		parts[i] = strings.ReplaceAll(strings.ReplaceAll(parts[i], "~1", "/"), "~0", "~")
	}
	return parts, nil
}

func getPtr(root interface{}, parts []string) (interface{}, error) {
	cur := root
	for _, k := range parts {
		switch t := cur.(type) {
		case map[string]interface{}:
			v, ok := t[k]
			if !ok {
				return nil, errors.New("missing path")
			}
			cur = v
		case []interface{}:
			i, err := strconv.Atoi(k)
			if err != nil || i < 0 || i >= len(t) {
				return nil, errors.New("bad index")
			}
			cur = t[i]
		default:
			return nil, errors.New("cannot descend")
		}
	}
	return cur, nil
}

// setPtr performs add (insert=true) or replace at the path; returns the new root.
func setPtr(root interface{}, parts []string, val interface{}, insert bool) (interface{}, error) {
	if len(parts) == 0 {
		return val, nil
	}
	parent, err := getPtr(root, parts[:len(parts)-1])
	if err != nil {
		return nil, err
	}
	last := parts[len(parts)-1]
	switch t := parent.(type) {
	case map[string]interface{}:
		if !insert {
			if _, ok := t[last]; !ok {
				// RFC 6902 says error; the property does not cover RFC 6902 conformance of the patch engine
				return nil, ErrUnmodelled
			}
		}
		t[last] = val
		return root, nil
	case []interface{}:
		var idx int
		if last == "-" && insert {
			idx = len(t)
		} else {
			i, err := strconv.Atoi(last)
			if err != nil || i < 0 {
				return nil, errors.New("bad index")
			}
			idx = i
		}
		var na []interface{}
		if insert {
			if idx > len(t) {
				return nil, errors.New("index out of range")
			}
			na = append(na, t[:idx]...)
			na = append(na, val)
			na = append(na, t[idx:]...)
		} else {
			if idx >= len(t) {
				return nil, errors.New("index out of range")
			}
			na = append(na, t...)
			na[idx] = val
		}
		return setPtr(root, parts[:len(parts)-1], na, false)
	}
	return nil, errors.New("cannot set below scalar")
}

func delPtr(root interface{}, parts []string) (interface{}, error) {
	if len(parts) == 0 {
		return nil, errors.New("cannot remove root")
	}
	parent, err := getPtr(root, parts[:len(parts)-1])
	if err != nil {
		return nil, err
	}
	last := parts[len(parts)-1]
	switch t := parent.(type) {
	case map[string]interface{}:
		if _, ok := t[last]; !ok {
			return nil, errors.New("remove of missing member")
		}
		delete(t, last)
		return root, nil
	case []interface{}:
		i, err := strconv.Atoi(last)
		if err != nil || i < 0 || i >= len(t) {
			return nil, errors.New("bad index")
		}
		na := append(append([]interface{}{}, t[:i]...), t[i+1:]...)
		return setPtr(root, parts[:len(parts)-1], na, false)
	}
	return nil, errors.New("cannot remove below scalar")
}

func jsonPatchOp(root interface{}, op interface{}) (interface{}, error) {
	m, ok := op.(map[string]interface{})
	if !ok {
		return nil, errors.New("operation is not an object")
	}
	name, _ := m["op"].(string)
	path, ok := m["path"].(string)
	if !ok {
		return nil, errors.New("missing path")
	}
	parts, err := splitPtr(path)
	if err != nil {
		return nil, err
	}
	switch name {
	case "add":
		v, ok := m["value"]
		if !ok {
			return nil, errors.New("missing value")
		}
		return setPtr(root, parts, Clone(v), true)
	case "replace":
		v, ok := m["value"]
		if !ok {
			return nil, errors.New("missing value")
		}
		return setPtr(root, parts, Clone(v), false)
	case "remove":
		return delPtr(root, parts)
	case "test":
		v, ok := m["value"]
		if !ok {
			return nil, ErrUnmodelled
		}
		cur, err := getPtr(root, parts)
		if err != nil {
			return nil, err
		}
		if !jcs.Equal(jcs.FromGo(toPlain(cur)), jcs.FromGo(toPlain(v))) {
			return nil, errors.New("test failed")
		}
		return root, nil
	case "move", "copy":
		from, ok := m["from"].(string)
		if !ok {
			return nil, errors.New("missing from")
		}
		fp, err := splitPtr(from)
		if err != nil {
			return nil, err
		}
		v, err := getPtr(root, fp)
		if err != nil {
			// RFC 6902 makes a missing "from" location an error; the engine in use treats a missing object member as null for
			// copy. Conformance with RFC 6902 is not part of the properties, so the shape is left undefined here (like "replace"
			// of a missing member).
			return nil, ErrUnmodelled
		}
		v = Clone(v)
		if name == "move" {
			root, err = delPtr(root, fp)
			if err != nil {
				return nil, err
			}
		}
		return setPtr(root, parts, v, true)
	}
	return nil, fmt.Errorf("unknown op %q", name)
}
