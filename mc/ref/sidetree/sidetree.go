// Package sidetree is the reference Sidetree resolution state machine (DESIGN appendix A.1), written
// from the property texts over abstract operations. It does not import the code under test.
package sidetree

import (
	"errors"
	"sort"

	"verif/mc/ref/doc"
)

// Delta status values.
const (
	DeltaOK           = "ok"
	DeltaHashMismatch = "hashMismatch" // delta does not match the signed / suffix-data hash
	DeltaInvalid      = "invalid"      // delta fails validation (disabled action, bad patch, ...)
	DeltaApplyFails   = "applyFails"   // valid delta whose patches fail to apply
)

// Op is an abstract anchored operation.
type Op struct {
	ID        string
	Type      string // create | update | recover | deactivate
	Time, Num uint64
	Published bool
	Ref       string
	Equiv     []string

	ParseOK      bool   // the request parses in batch mode (reveal value / next commitment extractable)
	Reveals      string // commitment of the revealed key
	Authorized   bool   // signature by the revealed key over the signed data verifies (deactivate: and signed suffix matches)
	NextUpdate   string
	NextRecovery string
	Delta        string
	From, Until  int64
	Patches      []interface{}
	AnchorOrigin interface{}
}

// State is a resolved state.
type State struct {
	Doc          doc.Doc
	Upd, Rec     string
	Deactivated  bool
	Created      uint64
	Updated      uint64
	LastT, LastN uint64
	VersionID    string
	Canonical    string
	Equiv        []string
	AnchorOrigin interface{}
	Applied      []string // ids of applied operations in order
	Consumed     []string // commitments consumed in order (both chains)
}

// Cut selects a historical view.
type Cut struct {
	HasTime bool
	Time    int64 // unix seconds
	Version string
}

// ErrNotFound is returned when no create is available.
var ErrNotFound = errors.New("create operation not found")

// InWindow is the anchoring window predicate.
func InWindow(from, until int64, t uint64, delta uint64) bool {
	if from == 0 && until == 0 {
		return true
	}
	eff := until
	if until == 0 && from != 0 {
		eff = from + int64(delta)
	}
	return from <= int64(t) && int64(t) <= eff
}

func less(a, b *Op) bool {
	if a.Published != b.Published {
		return a.Published
	}
	if a.Time != b.Time {
		return a.Time < b.Time
	}
	return a.Num < b.Num
}

// Order sorts operations: published by (time, number), then unpublished by (time, number).
func Order(ops []*Op) []*Op {
	out := append([]*Op(nil), ops...)
	sort.SliceStable(out, func(i, j int) bool { return less(out[i], out[j]) })
	return out
}

// Resolve resolves the set of operations; maxDelta is the protocol's maximum operation time delta.
func Resolve(ops []*Op, cut *Cut, maxDelta uint64) (*State, error) {
	all := Order(ops)
	if cut != nil {
		var sel []*Op
		switch {
		case cut.Version != "":
			idx := -1
			for i, o := range all {
				if o.Published && o.Ref == cut.Version {
					idx = i
					break
				}
			}
			if idx < 0 {
				return nil, errors.New("not a valid versionId")
			}
			sel = all[:idx+1]
		case cut.HasTime:
			for _, o := range all {
				if cut.Time >= 0 && o.Time <= uint64(cut.Time) {
					sel = append(sel, o)
				}
			}
			if len(sel) == 0 {
				return nil, errors.New("no operations found for version time")
			}
		default:
			sel = all
		}
		all = sel
	}

	var st *State
	sawCreate := false
	for _, o := range all {
		if o.Type != "create" {
			continue
		}
		sawCreate = true
		if !o.ParseOK {
			continue
		}
		st = &State{Doc: doc.Doc{}, Rec: o.NextRecovery, Created: o.Time, LastT: o.Time, LastN: o.Num,
			VersionID: o.Ref, Canonical: o.Ref, Equiv: o.Equiv, AnchorOrigin: o.AnchorOrigin, Applied: []string{o.ID}}
		switch o.Delta {
		case DeltaOK:
			st.Upd = o.NextUpdate
			if d, err := doc.ApplyAll(doc.Doc{}, o.Patches); err == nil {
				st.Doc = d
			}
		case DeltaApplyFails:
			st.Upd = o.NextUpdate
		}
		break
	}
	if st == nil {
		if !sawCreate {
			return nil, ErrNotFound
		}
		return nil, errors.New("valid create operation not found")
	}

	// full operations (recover, deactivate) along the recovery commitment chain
	consumed := map[string]bool{}
	for st.Rec != "" {
		c := st.Rec
		var pick *Op
		for _, o := range all {
			if (o.Type != "recover" && o.Type != "deactivate") || !o.ParseOK || o.Reveals != c {
				continue
			}
			next := o.NextRecovery
			if o.Type == "deactivate" {
				next = ""
			}
			if next == c || (next != "" && consumed[next]) {
				continue
			}
			if !o.Authorized {
				continue
			}
			if o.Type == "deactivate" && !InWindow(o.From, o.Until, o.Time, maxDelta) {
				continue
			}
			pick = o
			break
		}
		if pick == nil {
			break
		}
		consumed[c] = true
		st.Consumed = append(st.Consumed, c)
		st.Applied = append(st.Applied, pick.ID)
		st.Updated = pick.Time
		st.LastT, st.LastN = pick.Time, pick.Num
		st.VersionID = pick.Ref
		if pick.Type == "deactivate" {
			st.Doc = doc.Doc{}
			st.Rec, st.Upd = "", ""
			st.Deactivated = true
			return st, nil
		}
		st.Doc = doc.Doc{}
		st.Rec = pick.NextRecovery
		st.Upd = ""
		st.Canonical = pick.Ref
		st.Equiv = pick.Equiv
		st.AnchorOrigin = pick.AnchorOrigin
		switch pick.Delta {
		case DeltaOK:
			st.Upd = pick.NextUpdate
			if InWindow(pick.From, pick.Until, pick.Time, maxDelta) {
				if d, err := doc.ApplyAll(doc.Doc{}, pick.Patches); err == nil {
					st.Doc = d
				}
			}
		case DeltaApplyFails:
			st.Upd = pick.NextUpdate
		}
	}

	// updates after the last full operation
	lt, ln := st.LastT, st.LastN
	var cand []*Op
	for _, o := range all {
		if o.Type != "update" {
			continue
		}
		if !o.Published || o.Time > lt || (o.Time == lt && o.Num > ln) {
			cand = append(cand, o)
		}
	}
	consumed = map[string]bool{}
	for st.Upd != "" {
		c := st.Upd
		var pick *Op
		for _, o := range cand {
			if !o.ParseOK || o.Reveals != c {
				continue
			}
			if o.NextUpdate == c || (o.NextUpdate != "" && consumed[o.NextUpdate]) {
				continue
			}
			if !o.Authorized || o.Delta == DeltaHashMismatch || o.Delta == DeltaInvalid {
				continue
			}
			pick = o
			break
		}
		if pick == nil {
			break
		}
		consumed[c] = true
		st.Consumed = append(st.Consumed, c)
		st.Applied = append(st.Applied, pick.ID)
		st.Upd = pick.NextUpdate
		st.Updated = pick.Time
		st.LastT, st.LastN = pick.Time, pick.Num
		st.VersionID = pick.Ref
		if pick.Delta == DeltaOK && InWindow(pick.From, pick.Until, pick.Time, maxDelta) {
			if d, err := doc.ApplyAll(st.Doc, pick.Patches); err == nil {
				st.Doc = d
			}
		}
	}
	return st, nil
}
