// Package jcs is an independent reference implementation of RFC 8259 parsing (strict, I-JSON
// strings) and RFC 8785 canonical serialization. It does not import the code under test and does not
// use strconv.FormatFloat (the number formatter is written on math/big).
package jcs

import (
	"errors"
	"fmt"
	"math"
	"math/big"
	"sort"
	"strconv"
	"strings"
	"unicode/utf8"
)

// Kind of a JSON value.
type Kind int

// Kinds.
const (
	Null Kind = iota
	Bool
	Number
	String
	Array
	Object
)

// Member is an object member; the name is a sequence of UTF-16 code units.
type Member struct {
	Name []uint16
	Val  *Value
}

// Value is a JSON value.
type Value struct {
	K   Kind
	B   bool
	N   float64
	S   []uint16 // UTF-16 code units
	A   []*Value
	Obj []Member // in source order
}

type parser struct {
	b []byte
	i int
}

// Parse parses a complete JSON text (any top-level value). It rejects duplicate member names,
// lone surrogates, invalid escapes, raw control characters, invalid UTF-8 and trailing content.
func Parse(b []byte) (*Value, error) {
	p := &parser{b: b}
	p.ws()
	v, err := p.value(0)
	if err != nil {
		return nil, err
	}
	p.ws()
	if p.i != len(p.b) {
		return nil, fmt.Errorf("trailing content at %d", p.i)
	}
	return v, nil
}

func (p *parser) ws() {
	for p.i < len(p.b) {
		switch p.b[p.i] {
		case ' ', '\t', '\n', '\r':
			p.i++
		default:
			return
		}
	}
}

func (p *parser) value(depth int) (*Value, error) {
	if depth > 200 {
		return nil, errors.New("too deep")
	}
	if p.i >= len(p.b) {
		return nil, errors.New("unexpected end")
	}
	c := p.b[p.i]
	switch {
	case c == '{':
		return p.object(depth)
	case c == '[':
		return p.array(depth)
	case c == '"':
		s, err := p.str()
		if err != nil {
			return nil, err
		}
		return &Value{K: String, S: s}, nil
	case c == 't':
		return p.lit("true", &Value{K: Bool, B: true})
	case c == 'f':
		return p.lit("false", &Value{K: Bool, B: false})
	case c == 'n':
		return p.lit("null", &Value{K: Null})
	case c == '-' || (c >= '0' && c <= '9'):
		return p.num()
	}
	return nil, fmt.Errorf("unexpected byte %q at %d", c, p.i)
}

func (p *parser) lit(s string, v *Value) (*Value, error) {
	if strings.HasPrefix(string(p.b[p.i:]), s) {
		p.i += len(s)
		return v, nil
	}
	return nil, fmt.Errorf("bad literal at %d", p.i)
}

func (p *parser) num() (*Value, error) {
	st := p.i
	if p.b[p.i] == '-' {
		p.i++
	}
	if p.i >= len(p.b) {
		return nil, errors.New("bad number")
	}
	if p.b[p.i] == '0' {
		p.i++
	} else if p.b[p.i] >= '1' && p.b[p.i] <= '9' {
		for p.i < len(p.b) && p.b[p.i] >= '0' && p.b[p.i] <= '9' {
			p.i++
		}
	} else {
		return nil, errors.New("bad number")
	}
	if p.i < len(p.b) && p.b[p.i] == '.' {
		p.i++
		n := 0
		for p.i < len(p.b) && p.b[p.i] >= '0' && p.b[p.i] <= '9' {
			p.i++
			n++
		}
		if n == 0 {
			return nil, errors.New("bad fraction")
		}
	}
	if p.i < len(p.b) && (p.b[p.i] == 'e' || p.b[p.i] == 'E') {
		p.i++
		if p.i < len(p.b) && (p.b[p.i] == '+' || p.b[p.i] == '-') {
			p.i++
		}
		n := 0
		for p.i < len(p.b) && p.b[p.i] >= '0' && p.b[p.i] <= '9' {
			p.i++
			n++
		}
		if n == 0 {
			return nil, errors.New("bad exponent")
		}
	}
	f, err := strconv.ParseFloat(string(p.b[st:p.i]), 64)
	if err != nil {
		return nil, err // out of range: not an I-JSON number
	}
	return &Value{K: Number, N: f}, nil
}

func hexv(c byte) int {
	switch {
	case c >= '0' && c <= '9':
		return int(c - '0')
	case c >= 'a' && c <= 'f':
		return int(c-'a') + 10
	case c >= 'A' && c <= 'F':
		return int(c-'A') + 10
	}
	return -1
}

func (p *parser) str() ([]uint16, error) {
	p.i++ // opening quote
	var out []uint16
	for {
		if p.i >= len(p.b) {
			return nil, errors.New("unterminated string")
		}
		c := p.b[p.i]
		switch {
		case c == '"':
			p.i++
			// check surrogate well-formedness
			for k := 0; k < len(out); k++ {
				u := out[k]
				if u >= 0xD800 && u <= 0xDBFF {
					if k+1 >= len(out) || out[k+1] < 0xDC00 || out[k+1] > 0xDFFF {
						return nil, errors.New("lone high surrogate")
					}
					k++
				} else if u >= 0xDC00 && u <= 0xDFFF {
					return nil, errors.New("lone low surrogate")
				}
			}
			if out == nil {
				out = []uint16{}
			}
			return out, nil
		case c < 0x20:
			return nil, errors.New("raw control character in string")
		case c == '\\':
			p.i++
			if p.i >= len(p.b) {
				return nil, errors.New("unterminated escape")
			}
			e := p.b[p.i]
			p.i++
			switch e {
			case '"':
				out = append(out, '"')
			case '\\':
				out = append(out, '\\')
			case '/':
				out = append(out, '/')
			case 'b':
				out = append(out, 8)
			case 'f':
				out = append(out, 12)
			case 'n':
				out = append(out, 10)
			case 'r':
				out = append(out, 13)
			case 't':
				out = append(out, 9)
			case 'u':
				if p.i+4 > len(p.b) {
					return nil, errors.New("short \\u escape")
				}
				v := 0
				for k := 0; k < 4; k++ {
					h := hexv(p.b[p.i+k])
					if h < 0 {
						return nil, errors.New("bad \\u escape")
					}
					v = v<<4 | h
				}
				p.i += 4
				out = append(out, uint16(v))
			default:
				return nil, fmt.Errorf("invalid escape \\%c", e)
			}
		case c < 0x80:
			out = append(out, uint16(c))
			p.i++
		default:
			r, sz := utf8.DecodeRune(p.b[p.i:])
			if r == utf8.RuneError && sz <= 1 {
				return nil, errors.New("invalid UTF-8")
			}
			p.i += sz
			if r >= 0x10000 {
				r -= 0x10000
				out = append(out, uint16(0xD800+(r>>10)), uint16(0xDC00+(r&0x3FF)))
			} else {
				out = append(out, uint16(r))
			}
		}
	}
}

func (p *parser) array(depth int) (*Value, error) {
	p.i++
	v := &Value{K: Array, A: []*Value{}}
	p.ws()
	if p.i < len(p.b) && p.b[p.i] == ']' {
		p.i++
		return v, nil
	}
	for {
		p.ws()
		e, err := p.value(depth + 1)
		if err != nil {
			return nil, err
		}
		v.A = append(v.A, e)
		p.ws()
		if p.i >= len(p.b) {
			return nil, errors.New("unterminated array")
		}
		if p.b[p.i] == ',' {
			p.i++
			continue
		}
		if p.b[p.i] == ']' {
			p.i++
			return v, nil
		}
		return nil, fmt.Errorf("unexpected byte in array at %d", p.i)
	}
}

func (p *parser) object(depth int) (*Value, error) {
	p.i++
	v := &Value{K: Object, Obj: []Member{}}
	p.ws()
	if p.i < len(p.b) && p.b[p.i] == '}' {
		p.i++
		return v, nil
	}
	seen := map[string]bool{}
	for {
		p.ws()
		if p.i >= len(p.b) || p.b[p.i] != '"' {
			return nil, fmt.Errorf("expected member name at %d", p.i)
		}
		name, err := p.str()
		if err != nil {
			return nil, err
		}
		k := u16key(name)
		if seen[k] {
			return nil, errors.New("duplicate member name")
		}
		seen[k] = true
		p.ws()
		if p.i >= len(p.b) || p.b[p.i] != ':' {
			return nil, fmt.Errorf("expected ':' at %d", p.i)
		}
		p.i++
		p.ws()
		e, err := p.value(depth + 1)
		if err != nil {
			return nil, err
		}
		v.Obj = append(v.Obj, Member{Name: name, Val: e})
		p.ws()
		if p.i >= len(p.b) {
			return nil, errors.New("unterminated object")
		}
		if p.b[p.i] == ',' {
			p.i++
			continue
		}
		if p.b[p.i] == '}' {
			p.i++
			return v, nil
		}
		return nil, fmt.Errorf("unexpected byte in object at %d", p.i)
	}
}

func u16key(s []uint16) string {
	b := make([]byte, 0, len(s)*2)
	for _, u := range s {
		b = append(b, byte(u>>8), byte(u))
	}
	return string(b)
}

func lessU16(a, b []uint16) bool {
	for i := 0; i < len(a) && i < len(b); i++ {
		if a[i] != b[i] {
			return a[i] < b[i]
		}
	}
	return len(a) < len(b)
}

// Canonical returns the RFC 8785 serialization of v.
func Canonical(v *Value) ([]byte, error) {
	var sb strings.Builder
	if err := ser(&sb, v); err != nil {
		return nil, err
	}
	return []byte(sb.String()), nil
}

// CanonicalBytes parses and canonicalizes.
func CanonicalBytes(b []byte) ([]byte, error) {
	v, err := Parse(b)
	if err != nil {
		return nil, err
	}
	return Canonical(v)
}

func ser(sb *strings.Builder, v *Value) error {
	switch v.K {
	case Null:
		sb.WriteString("null")
	case Bool:
		if v.B {
			sb.WriteString("true")
		} else {
			sb.WriteString("false")
		}
	case Number:
		s, err := NumberToString(v.N)
		if err != nil {
			return err
		}
		sb.WriteString(s)
	case String:
		serStr(sb, v.S)
	case Array:
		sb.WriteByte('[')
		for i, e := range v.A {
			if i > 0 {
				sb.WriteByte(',')
			}
			if err := ser(sb, e); err != nil {
				return err
			}
		}
		sb.WriteByte(']')
	case Object:
		ms := append([]Member(nil), v.Obj...)
		sort.SliceStable(ms, func(i, j int) bool { return lessU16(ms[i].Name, ms[j].Name) })
		sb.WriteByte('{')
		for i, m := range ms {
			if i > 0 {
				sb.WriteByte(',')
			}
			serStr(sb, m.Name)
			sb.WriteByte(':')
			if err := ser(sb, m.Val); err != nil {
				return err
			}
		}
		sb.WriteByte('}')
	}
	return nil
}

func serStr(sb *strings.Builder, s []uint16) {
	sb.WriteByte('"')
	for i := 0; i < len(s); i++ {
		u := s[i]
		switch {
		case u == '"':
			sb.WriteString(`\"`)
		case u == '\\':
			sb.WriteString(`\\`)
		case u == 8:
			sb.WriteString(`\b`)
		case u == 12:
			sb.WriteString(`\f`)
		case u == 10:
			sb.WriteString(`\n`)
		case u == 13:
			sb.WriteString(`\r`)
		case u == 9:
			sb.WriteString(`\t`)
		case u < 0x20:
			const hx = "0123456789abcdef"
			sb.WriteString(`\u00`)
			sb.WriteByte(hx[u>>4])
			sb.WriteByte(hx[u&15])
		case u >= 0xD800 && u <= 0xDBFF && i+1 < len(s):
			r := rune(0x10000) + (rune(u)-0xD800)<<10 + (rune(s[i+1]) - 0xDC00)
			i++
			sb.WriteRune(r)
		default:
			sb.WriteRune(rune(u))
		}
	}
	sb.WriteByte('"')
}

// Equal reports deep equality of two values (objects compared as unordered sets of members).
func Equal(a, b *Value) bool {
	if a.K != b.K {
		return false
	}
	switch a.K {
	case Null:
		return true
	case Bool:
		return a.B == b.B
	case Number:
		return a.N == b.N || (a.N == 0 && b.N == 0)
	case String:
		return u16key(a.S) == u16key(b.S)
	case Array:
		if len(a.A) != len(b.A) {
			return false
		}
		for i := range a.A {
			if !Equal(a.A[i], b.A[i]) {
				return false
			}
		}
		return true
	case Object:
		if len(a.Obj) != len(b.Obj) {
			return false
		}
		m := map[string]*Value{}
		for _, x := range a.Obj {
			m[u16key(x.Name)] = x.Val
		}
		for _, y := range b.Obj {
			x, ok := m[u16key(y.Name)]
			if !ok || !Equal(x, y.Val) {
				return false
			}
		}
		return true
	}
	return false
}

var ten = big.NewInt(10)

func pow10(n int) *big.Rat {
	if n >= 0 {
		return new(big.Rat).SetInt(new(big.Int).Exp(ten, big.NewInt(int64(n)), nil))
	}
	return new(big.Rat).SetFrac(big.NewInt(1), new(big.Int).Exp(ten, big.NewInt(int64(-n)), nil))
}

// NumberToString implements ECMAScript Number::toString (radix 10) on exact rational arithmetic.
func NumberToString(f float64) (string, error) {
	if math.IsNaN(f) || math.IsInf(f, 0) {
		return "", errors.New("NaN/Infinity not allowed in JSON")
	}
	if f == 0 {
		return "0", nil
	}
	sign := ""
	if f < 0 {
		sign = "-"
		f = -f
	}
	m := new(big.Rat).SetFloat64(f)
	// n such that 10^(n-1) <= m < 10^n
	n := int(math.Floor(math.Log10(f))) + 1
	for m.Cmp(pow10(n)) >= 0 {
		n++
	}
	for m.Cmp(pow10(n-1)) < 0 {
		n--
	}
	var digits string
	var nn int
	found := false
	for k := 1; k <= 17 && !found; k++ {
		scale := pow10(n - k)
		q := new(big.Rat).Quo(m, scale)
		lo := new(big.Int).Quo(q.Num(), q.Denom())
		hi := new(big.Int).Add(lo, big.NewInt(1))
		var best *big.Int
		var bestDist *big.Rat
		for _, s := range []*big.Int{lo, hi} {
			if s.Sign() <= 0 {
				continue
			}
			v := new(big.Rat).Mul(new(big.Rat).SetInt(s), scale)
			back, _ := v.Float64()
			if back != f {
				continue
			}
			d := new(big.Rat).Sub(v, m)
			d.Abs(d)
			if best == nil {
				best, bestDist = s, d
				continue
			}
			c := d.Cmp(bestDist)
			if c < 0 || (c == 0 && s.Bit(0) == 0) {
				best, bestDist = s, d
			}
		}
		if best != nil {
			digits = best.String()
			nn = n
			if len(digits) > k { // s == 10^k
				nn = n + (len(digits) - k)
			}
			digits = strings.TrimRight(digits, "0")
			found = true
		}
	}
	if !found {
		return "", fmt.Errorf("no round-tripping representation found for %b", f)
	}
	k := len(digits)
	n = nn
	var out string
	switch {
	case k <= n && n <= 21:
		out = digits + strings.Repeat("0", n-k)
	case 0 < n && n <= 21:
		out = digits[:n] + "." + digits[n:]
	case -6 < n && n <= 0:
		out = "0." + strings.Repeat("0", -n) + digits
	default:
		e := n - 1
		es := "+"
		if e < 0 {
			es = "-"
			e = -e
		}
		if k == 1 {
			out = digits + "e" + es + strconv.Itoa(e)
		} else {
			out = digits[:1] + "." + digits[1:] + "e" + es + strconv.Itoa(e)
		}
	}
	return sign + out, nil
}

// FromGo converts a Go value as produced by encoding/json (map[string]interface{}, []interface{},
// string, float64, bool, nil, plus ints) into a Value.
func FromGo(x interface{}) *Value {
	switch t := x.(type) {
	case nil:
		return &Value{K: Null}
	case bool:
		return &Value{K: Bool, B: t}
	case float64:
		return &Value{K: Number, N: t}
	case int:
		return &Value{K: Number, N: float64(t)}
	case int64:
		return &Value{K: Number, N: float64(t)}
	case uint64:
		return &Value{K: Number, N: float64(t)}
	case string:
		return &Value{K: String, S: U16(t)}
	case []interface{}:
		v := &Value{K: Array, A: []*Value{}}
		for _, e := range t {
			v.A = append(v.A, FromGo(e))
		}
		return v
	case []string:
		v := &Value{K: Array, A: []*Value{}}
		for _, e := range t {
			v.A = append(v.A, FromGo(e))
		}
		return v
	case map[string]interface{}:
		v := &Value{K: Object, Obj: []Member{}}
		keys := make([]string, 0, len(t))
		for k := range t {
			keys = append(keys, k)
		}
		sort.Strings(keys)
		for _, k := range keys {
			v.Obj = append(v.Obj, Member{Name: U16(k), Val: FromGo(t[k])})
		}
		return v
	case *Value:
		return t
	}
	panic(fmt.Sprintf("jcs.FromGo: unsupported %T", x))
}

// U16 converts a Go string (valid UTF-8) to UTF-16 code units.
func U16(s string) []uint16 {
	out := []uint16{}
	for _, r := range s {
		if r >= 0x10000 {
			r -= 0x10000
			out = append(out, uint16(0xD800+(r>>10)), uint16(0xDC00+(r&0x3FF)))
		} else {
			out = append(out, uint16(r))
		}
	}
	return out
}

// MustCanon canonicalizes a Go value tree.
func MustCanon(x interface{}) []byte {
	b, err := Canonical(FromGo(x))
	if err != nil {
		panic(err)
	}
	return b
}
