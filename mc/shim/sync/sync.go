// Package sync is a drop-in subset of the standard sync package whose mutexes are scheduling points of the
// explorer while an exploration is active and plain standard mutexes otherwise.
package sync

import (
	"fmt"
	stdsync "sync"

	"verif/mc/explore"
)

// WaitGroup, Once, Map, Pool and Locker are the standard ones.
type (
	WaitGroup = stdsync.WaitGroup
	Once      = stdsync.Once
	Map       = stdsync.Map
	Pool      = stdsync.Pool
	Locker    = stdsync.Locker
)

// RWMutex is a reader/writer mutex.
type RWMutex struct {
	std     stdsync.RWMutex
	id      int
	writer  bool
	readers int
}

func (m *RWMutex) name(s *explore.Sched) string {
	if m.id == 0 {
		m.id = s.NextID()
	}
	return fmt.Sprintf("m%d", m.id)
}

// Lock locks for writing.
func (m *RWMutex) Lock() {
	s := explore.Active()
	if s == nil {
		m.std.Lock()
		return
	}
	s.Yield("Lock("+m.name(s)+")", func() bool { return !m.writer && m.readers == 0 })
	m.writer = true
}

// Unlock unlocks.
func (m *RWMutex) Unlock() {
	s := explore.Active()
	if s == nil {
		m.std.Unlock()
		return
	}
	if !m.writer {
		panic("sync: Unlock of unlocked RWMutex")
	}
	m.writer = false
	s.Yield("Unlock("+m.name(s)+")", nil)
}

// RLock locks for reading.
func (m *RWMutex) RLock() {
	s := explore.Active()
	if s == nil {
		m.std.RLock()
		return
	}
	s.Yield("RLock("+m.name(s)+")", func() bool { return !m.writer })
	m.readers++
}

// RUnlock undoes one RLock.
func (m *RWMutex) RUnlock() {
	s := explore.Active()
	if s == nil {
		m.std.RUnlock()
		return
	}
	if m.readers <= 0 {
		panic("sync: RUnlock of unlocked RWMutex")
	}
	m.readers--
	s.Yield("RUnlock("+m.name(s)+")", nil)
}

// Mutex is a mutual exclusion lock.
type Mutex struct{ rw RWMutex }

// Lock locks.
func (m *Mutex) Lock() { m.rw.Lock() }

// Unlock unlocks.
func (m *Mutex) Unlock() { m.rw.Unlock() }
