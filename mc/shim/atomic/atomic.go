// Package atomic is a drop-in subset of sync/atomic whose operations are scheduling points of the explorer.
package atomic

import (
	std "sync/atomic"

	"verif/mc/explore"
)

func point(l string) {
	if s := explore.Active(); s != nil {
		s.Yield(l, nil)
	}
}

// CompareAndSwapUint32 is a scheduling point followed by the real operation.
func CompareAndSwapUint32(addr *uint32, old, new uint32) bool {
	point("atomic.CAS")
	return std.CompareAndSwapUint32(addr, old, new)
}

// LoadUint32 is a scheduling point followed by the real operation.
func LoadUint32(addr *uint32) uint32 { point("atomic.Load"); return std.LoadUint32(addr) }

// StoreUint32 is a scheduling point followed by the real operation.
func StoreUint32(addr *uint32, v uint32) { point("atomic.Store"); std.StoreUint32(addr, v) }

// AddUint32 is a scheduling point followed by the real operation.
func AddUint32(addr *uint32, d uint32) uint32 { point("atomic.Add"); return std.AddUint32(addr, d) }

// LoadInt32 is a scheduling point followed by the real operation.
func LoadInt32(addr *int32) int32 { point("atomic.Load"); return std.LoadInt32(addr) }

// StoreInt32 is a scheduling point followed by the real operation.
func StoreInt32(addr *int32, v int32) { point("atomic.Store"); std.StoreInt32(addr, v) }

// CompareAndSwapInt32 is a scheduling point followed by the real operation.
func CompareAndSwapInt32(addr *int32, old, new int32) bool {
	point("atomic.CAS")
	return std.CompareAndSwapInt32(addr, old, new)
}

// AddInt32 is a scheduling point followed by the real operation.
func AddInt32(addr *int32, d int32) int32 { point("atomic.Add"); return std.AddInt32(addr, d) }

// AddInt64 is a scheduling point followed by the real operation.
func AddInt64(addr *int64, d int64) int64 { point("atomic.Add"); return std.AddInt64(addr, d) }

// LoadInt64 is a scheduling point followed by the real operation.
func LoadInt64(addr *int64) int64 { point("atomic.Load"); return std.LoadInt64(addr) }

// LoadUint64 is a scheduling point followed by the real operation.
func LoadUint64(addr *uint64) uint64 { point("atomic.Load"); return std.LoadUint64(addr) }

// AddUint64 is a scheduling point followed by the real operation.
func AddUint64(addr *uint64, d uint64) uint64 { point("atomic.Add"); return std.AddUint64(addr, d) }
