// Package covreg collects statement-coverage counters of source files that were instrumented by hand (go tool cover) and
// injected through the build overlay - the only way to measure coverage of the packages whose sync imports the overlay
// rewrites. It is inert unless cover_batch.sh generated registration files.
package covreg

import (
	"fmt"
	"os"
	"sort"
	"sync"
)

type block struct {
	file       string
	start, end uint32
	count      *uint32
}

var (
	mu     sync.Mutex
	blocks []block
)

// Register adds the counters of one instrumented file (layout of go tool cover -mode=set).
func Register(file string, count []uint32, pos []uint32) {
	mu.Lock()
	defer mu.Unlock()
	for i := range count {
		blocks = append(blocks, block{file, pos[3*i], pos[3*i+1], &count[i]})
	}
}

// Dump appends "file:start-end count" lines to the file named by VERIF_BATCHCOVER (no-op when unset or nothing registered).
func Dump() {
	path := os.Getenv("VERIF_BATCHCOVER")
	if path == "" || len(blocks) == 0 {
		return
	}
	mu.Lock()
	defer mu.Unlock()
	sort.Slice(blocks, func(i, j int) bool {
		if blocks[i].file != blocks[j].file {
			return blocks[i].file < blocks[j].file
		}
		return blocks[i].start < blocks[j].start
	})
	f, err := os.OpenFile(path, os.O_APPEND|os.O_CREATE|os.O_WRONLY, 0o644)
	if err != nil {
		return
	}
	defer f.Close()
	for _, b := range blocks {
		fmt.Fprintf(f, "%s:%d-%d %d\n", b.file, b.start, b.end, *b.count)
	}
}
